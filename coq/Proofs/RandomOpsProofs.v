(* The randomised editing operations of Model/Random.v, for EVERY tape: names, number of rows and row lengths
   never change (shuffle sites / rogues, swap, recombine, add gaps, mutate); add gaps only turns cells
   into gaps; mutate never touches a gap, '.' or '*'. *)
From Coq Require Import List Bool NArith ZArith QArith Lia.
From Coq.Strings Require Import Byte.
Import ListNotations.
From GA.Base Require Import Bytes Align Tape.
From GA.Gen Require Import Alpha.
From GA.Model Require Import Random.
From GA.Proofs Require Import RandomProofs.
Local Open Scope Z_scope.

(* ---- shape -------------------------------------------------------------------------------------- *)
Definition shape (rs : rows) : list (list byte * nat) := map (fun r => (fst r, length (snd r))) rs.

Lemma map_set_nth_same {A B} (f : A -> B) (l : list A) k x :
  f x = f (nth k l x) -> (k < length l)%nat -> map f (set_nth k x l) = map f l.
Proof.
  revert k. induction l as [|h t IH]; intros k E Hk; [cbn in Hk; lia|].
  destruct k as [|k]; cbn [set_nth map nth] in *; [rewrite E; reflexivity|].
  f_equal. apply IH; [exact E | cbn in Hk; lia].
Qed.

Lemma set_nth_out {A} (l : list A) k x : (length l <= k)%nat -> set_nth k x l = l.
Proof.
  revert k. induction l as [|h t IH]; intros k Hk; [destruct k; reflexivity|].
  destruct k as [|k]; [cbn in Hk; lia|]. cbn [set_nth]. f_equal. apply IH. cbn in Hk. lia.
Qed.

Lemma set_cell_shape rs i j b : shape (set_cell rs i j b) = shape rs.
Proof.
  unfold set_cell, shape. set (k := Z.to_nat i).
  destruct (Nat.lt_ge_cases k (length rs)) as [Hk|Hk].
  - set (d := (@nil byte, @nil byte)).
    rewrite (map_set_nth_same (fun r : list byte * list byte => (fst r, length (snd r))) rs k
               (fst (nth k rs d), set_nth (Z.to_nat j) b (snd (nth k rs d)))); [reflexivity| |exact Hk].
    cbn [fst snd]. rewrite set_nth_length.
    rewrite (nth_indep rs (fst (nth k rs d), set_nth (Z.to_nat j) b (snd (nth k rs d))) d Hk). reflexivity.
  - rewrite set_nth_out by exact Hk. reflexivity.
Qed.

Lemma swap_cells_shape rs a b j : shape (swap_cells rs a b j) = shape rs.
Proof. unfold swap_cells. rewrite !set_cell_shape. reflexivity. Qed.

Lemma swap_suffix_shape : forall fuel rs s1 s2 pos L, shape (swap_suffix fuel rs s1 s2 pos L) = shape rs.
Proof.
  induction fuel as [|f IH]; intros rs s1 s2 pos L; cbn [swap_suffix]; [reflexivity|].
  destruct (pos <? L); [|reflexivity]. rewrite IH, swap_cells_shape. reflexivity.
Qed.

Lemma recomb_window_shape : forall fuel rs s1 s2 j e sw, shape (recomb_window fuel rs s1 s2 j e sw) = shape rs.
Proof.
  induction fuel as [|f IH]; intros rs s1 s2 j e sw; cbn [recomb_window]; [reflexivity|].
  destruct (j <? e); [|reflexivity]. cbv zeta. rewrite IH. destruct sw; rewrite ?set_cell_shape; reflexivity.
Qed.

(* loops: an invariant kept by every step is kept by the loop, whatever the tape *)
Lemma for_each_inv {S A} (P : S -> Prop) (f : S -> A -> tape -> option (S * tape)) :
  (forall s x t s' r, P s -> f s x t = Some (s', r) -> P s') ->
  forall l s t s' r, P s -> for_each l f s t = Some (s', r) -> P s'.
Proof.
  intros Hf. induction l as [|x l IH]; intros s t s' r Hs H; cbn [for_each] in H.
  - unfold ret in H. injection H as <- _. exact Hs.
  - unfold bind in H. destruct (f s x t) as [[s1 t1]|] eqn:E; [|discriminate].
    apply (IH s1 t1 s' r); [apply (Hf s x t s1 t1 Hs E) | exact H].
Qed.

Lemma fy_loop_inv {S} (P : S -> Prop) (sw : S -> Z -> Z -> S) :
  (forall s a b, P s -> P (sw s a b)) ->
  forall fuel n s t s' r, P s -> fy_loop fuel n sw s t = Some (s', r) -> P s'.
Proof.
  intros Hsw. induction fuel as [|f IH]; intros n s t s' r Hs H; cbn [fy_loop] in H.
  - unfold ret in H. injection H as <- _. exact Hs.
  - destruct (n <=? 1).
    + unfold ret in H. injection H as <- _. exact Hs.
    + unfold bind in H. destruct (intn n t) as [[v t1]|]; [|discriminate].
      apply (IH (n - 1) (sw s (n - 1) v) t1 s' r); [apply Hsw; exact Hs | exact H].
Qed.

Theorem swap_keeps_shape rate pos rs t out r : swap rate pos rs t = Some (out, r) -> shape out = shape rs.
Proof.
  unfold swap. cbv zeta. unfold bind at 1. destruct (zperm (nrows rs) t) as [[p t1]|]; [|discriminate].
  apply (for_each_inv (fun s => shape s = shape rs)); [|reflexivity].
  intros s i t0 s' r0 Hs H. unfold bind in H.
  destruct (match pos with None => intn (alen rs) | Some q => ret (scale q (alen rs)) end t0) as [[position t2]|]; [|discriminate].
  unfold ret in H. injection H as <- _. rewrite swap_suffix_shape. exact Hs.
Qed.

Theorem recombine_keeps_shape prop lenprop sw rs t out r :
  recombine prop lenprop sw rs t = Some (out, r) -> shape out = shape rs.
Proof.
  unfold recombine. cbv zeta. unfold bind at 1. destruct (zperm (nrows rs) t) as [[p t1]|]; [|discriminate].
  apply (for_each_inv (fun s => shape s = shape rs)); [|reflexivity].
  intros s i t0 s' r0 Hs H. unfold bind in H.
  destruct (intn (alen rs - scale lenprop (alen rs) + 1) t0) as [[pos t2]|]; [|discriminate].
  unfold ret in H. injection H as <- _. rewrite recomb_window_shape. exact Hs.
Qed.

Lemma fold_set_cell_shape (b : byte) (row : Z) (col : Z -> Z) : forall l rs,
  shape (fold_left (fun s' j => set_cell s' row (col j) b) l rs) = shape rs.
Proof. induction l as [|x l IH]; intros rs; cbn [fold_left]; [reflexivity|]. rewrite IH, set_cell_shape. reflexivity. Qed.

Theorem add_gaps_keeps_shape lenprop prop rs t out r :
  add_gaps lenprop prop rs t = Some (out, r) -> shape out = shape rs.
Proof.
  unfold add_gaps. cbv zeta. unfold bind at 1. destruct (zperm (nrows rs) t) as [[ps t1]|]; [|discriminate].
  apply (for_each_inv (fun s => shape s = shape rs)); [|reflexivity].
  intros s i t0 s' r0 Hs H. unfold bind in H.
  destruct (zperm (alen rs) t0) as [[psites t2]|]; [|discriminate].
  unfold ret in H. injection H as <- _.
  rewrite (fold_set_cell_shape GAP (nthZ ps i) (nthZ psites)). exact Hs.
Qed.

Theorem mutate_keeps_shape alphabet rate rs t out r :
  mutate alphabet rate rs t = Some (out, r) -> shape out = shape rs.
Proof.
  unfold mutate. destruct (Qle_bool rate 0); [unfold ret; intros H; injection H as <- _; reflexivity|]. cbv zeta.
  apply (for_each_inv (fun s => shape s = shape rs)); [|reflexivity].
  intros s i t0 s' r0 Hs. apply (for_each_inv (fun s => shape s = shape rs)); [|exact Hs].
  intros s1 j t1 s2 r1 Hs1 H. unfold bind in H. destruct (float64 t1) as [[f t2]|]; [|discriminate].
  destruct (Qle_bool (fst f # Z.to_pos (snd f)) (if Qle_bool rate 1 then rate else 1%Q) && negb (beqb (cell s1 i j) GAP) &&
            negb (beqb (cell s1 i j) POINT) && negb (beqb (cell s1 i j) OTHER)).
  - unfold bind in H. destruct (intn _ t2) as [[k t3]|]; [|discriminate]. unfold ret in H. injection H as <- _.
    rewrite set_cell_shape. exact Hs1.
  - unfold ret in H. injection H as <- _. exact Hs1.
Qed.

Theorem shuffle_sites_keeps_shape rate roguerate roguefirst rs t out rogues r :
  shuffle_sites rate roguerate roguefirst rs t = Some ((out, rogues), r) -> shape out = shape rs.
Proof.
  unfold shuffle_sites. cbv zeta. unfold bind at 1.
  destruct ((if roguefirst
             then tp <- zperm (nrows rs);; sp <- zperm (alen rs);; ret (tp, sp)
             else sp <- zperm (alen rs);; tp <- zperm (nrows rs);; ret (tp, sp)) t) as [[[taxperm siteperm] t1]|]; [|discriminate].
  unfold bind at 1.
  destruct (for_each (zseq (scale rate (alen rs)))
              (fun s i => fy_loop (length rs) (nrows rs) (fun s' a b => swap_cells s' a b (nthZ siteperm i)) s) rs t1)
    as [[rs1 t2]|] eqn:E1; [|discriminate].
  assert (H1 : shape rs1 = shape rs).
  { revert E1. apply (for_each_inv (fun s => shape s = shape rs)); [|reflexivity].
    intros s i t0 s' r0 Hs H. revert H. apply (fy_loop_inv (fun s => shape s = shape rs)); [|exact Hs].
    intros s0 a b Hs0. rewrite swap_cells_shape. exact Hs0. }
  unfold bind at 1.
  match goal with |- context [for_each ?l ?f (rs1, ?acc) t2] =>
    destruct (for_each l f (rs1, acc) t2) as [[res t3]|] eqn:E2; [|discriminate] end.
  unfold ret. intros H. injection H as -> _.
  assert (H2 : shape (fst (out, rogues)) = shape rs).
  { revert E2. apply (for_each_inv (fun st : rows * list (list byte) => shape (fst st) = shape rs)); [|exact H1].
    intros st i t0 st' r0 Hst. apply (for_each_inv (fun st : rows * list (list byte) => shape (fst st) = shape rs)); [|exact Hst].
    intros st1 x t4 st2 r1 Hst1 H. unfold bind in H. destruct (intn (x + 1) t4) as [[j t5]|]; [|discriminate].
    unfold ret in H. injection H as <- _. cbn [fst]. rewrite swap_cells_shape. exact Hst1. }
  exact H2.
Qed.

(* ---- cells -------------------------------------------------------------------------------------- *)
Lemma cell_set_cell rs i j b i' j' :
  cell (set_cell rs i j b) i' j' =
    if Nat.eqb (Z.to_nat i') (Z.to_nat i) && Nat.eqb (Z.to_nat j') (Z.to_nat j) &&
       Nat.ltb (Z.to_nat i) (length rs) && Nat.ltb (Z.to_nat j) (length (snd (nth (Z.to_nat i) rs ([], []))))
    then b else cell rs i' j'.
Proof.
  unfold cell, set_cell. set (d := (@nil byte, @nil byte)). rewrite nth_set_nth.
  destruct (Nat.eqb_spec (Z.to_nat i') (Z.to_nat i)) as [E|E]; cbn [andb]; [|reflexivity].
  destruct (Nat.ltb_spec (Z.to_nat i) (length rs)) as [Hi|Hi]; cbn [andb].
  - cbn [snd]. rewrite nth_set_nth. rewrite E.
    destruct (Nat.eqb (Z.to_nat j') (Z.to_nat j)); cbn [andb]; [|reflexivity].
    destruct (Nat.ltb (Z.to_nat j) (length (snd (nth (Z.to_nat i) rs d)))); reflexivity.
  - rewrite andb_false_r. reflexivity.
Qed.

(* AddGaps only turns cells into gaps *)
Definition only_gapped (rs rs' : rows) : Prop := forall i j, cell rs' i j = cell rs i j \/ cell rs' i j = GAP.

Lemma only_gapped_refl rs : only_gapped rs rs. Proof. intros i j. left. reflexivity. Qed.
Lemma only_gapped_trans a b c : only_gapped a b -> only_gapped b c -> only_gapped a c.
Proof. intros H1 H2 i j. destruct (H2 i j) as [E|E]; [rewrite E; apply H1 | right; exact E]. Qed.
Lemma only_gapped_set rs i j : only_gapped rs (set_cell rs i j GAP).
Proof. intros i' j'. rewrite cell_set_cell. destruct (_ && _ && _ && _); [right | left]; reflexivity. Qed.

Theorem add_gaps_only_adds_gaps lenprop prop rs t out r :
  add_gaps lenprop prop rs t = Some (out, r) -> only_gapped rs out.
Proof.
  unfold add_gaps. cbv zeta. unfold bind at 1. destruct (zperm (nrows rs) t) as [[ps t1]|]; [|discriminate].
  apply (for_each_inv (fun s => only_gapped rs s)); [|apply only_gapped_refl].
  intros s i t0 s' r0 Hs H. unfold bind in H.
  destruct (zperm (alen rs) t0) as [[psites t2]|]; [|discriminate].
  unfold ret in H. injection H as <- _. apply (only_gapped_trans rs s); [exact Hs|].
  generalize (zseq (scale lenprop (alen rs))) as l. intros l. revert s Hs. induction l as [|x l IH]; intros s Hs; cbn [fold_left].
  - apply only_gapped_refl.
  - apply (only_gapped_trans s (set_cell s (nthZ ps i) (nthZ psites x) GAP)); [apply only_gapped_set|].
    apply IH. apply (only_gapped_trans rs s); [exact Hs | apply only_gapped_set].
Qed.

(* Mutate never touches a gap, '.' or '*' *)
Definition special_cell (b : byte) : bool := beqb b GAP || beqb b POINT || beqb b OTHER.
Definition keeps_special (rs rs' : rows) : Prop := forall i j, special_cell (cell rs i j) = true -> cell rs' i j = cell rs i j.

Lemma keeps_special_trans a b c : keeps_special a b -> keeps_special b c -> keeps_special a c.
Proof. intros H1 H2 i j Hs. rewrite <- (H1 i j Hs). apply H2. rewrite (H1 i j Hs). exact Hs. Qed.

Lemma keeps_special_set rs i j b : special_cell (cell rs i j) = false -> keeps_special rs (set_cell rs i j b).
Proof.
  intros Hn i' j' Hs. rewrite cell_set_cell.
  destruct (Nat.eqb_spec (Z.to_nat i') (Z.to_nat i)) as [Ei|Ei]; cbn [andb]; [|reflexivity].
  destruct (Nat.eqb_spec (Z.to_nat j') (Z.to_nat j)) as [Ej|Ej]; cbn [andb]; [|reflexivity].
  exfalso. unfold cell in *. rewrite Ei, Ej in Hs. congruence.
Qed.

Theorem mutate_keeps_special alphabet rate rs t out r :
  mutate alphabet rate rs t = Some (out, r) -> keeps_special rs out.
Proof.
  unfold mutate. destruct (Qle_bool rate 0); [unfold ret; intros H; injection H as <- _; intros i j _; reflexivity|]. cbv zeta.
  apply (for_each_inv (fun s => keeps_special rs s)); [|intros i j _; reflexivity].
  intros s i t0 s' r0 Hs. apply (for_each_inv (fun s => keeps_special rs s)); [|exact Hs].
  intros s1 j t1 s2 r1 Hs1 H. unfold bind in H. destruct (float64 t1) as [[f t2]|]; [|discriminate].
  destruct (Qle_bool (fst f # Z.to_pos (snd f)) (if Qle_bool rate 1 then rate else 1%Q)); cbn [andb] in H;
    [|unfold ret in H; injection H as <- _; exact Hs1].
  destruct (beqb (cell s1 i j) GAP) eqn:E1; cbn [negb andb] in H; [unfold ret in H; injection H as <- _; exact Hs1|].
  destruct (beqb (cell s1 i j) POINT) eqn:E2; cbn [negb andb] in H; [unfold ret in H; injection H as <- _; exact Hs1|].
  destruct (beqb (cell s1 i j) OTHER) eqn:E3; cbn [negb andb] in H; [unfold ret in H; injection H as <- _; exact Hs1|].
  unfold bind in H. destruct (intn _ t2) as [[k t3]|]; [|discriminate]. unfold ret in H. injection H as <- _.
  apply (keeps_special_trans rs s1); [exact Hs1|]. apply keeps_special_set. unfold special_cell. rewrite E1, E2, E3. reflexivity.
Qed.

(* ---- columns: swapping two cells of a column only permutes that column ---------------------------- *)
From Coq Require Import Permutation.
From GA.Proofs Require ContainerProofs.

Definition col (rs : rows) (j : nat) : list byte := map (fun r => nth j (snd r) x00) rs.
Definition rect (L : nat) (rs : rows) : Prop := forall r, In r rs -> length (snd r) = L.

Lemma map_set_nth {A B} (f : A -> B) : forall (l : list A) k x, map f (set_nth k x l) = set_nth k (f x) (map f l).
Proof.
  induction l as [|h t IH]; intros k x; [destruct k; reflexivity|].
  destruct k as [|k]; cbn [set_nth map]; [reflexivity|]. f_equal. apply IH.
Qed.

Lemma set_nth_same {A} : forall (l : list A) k d, set_nth k (nth k l d) l = l.
Proof.
  induction l as [|h t IH]; intros k d; [destruct k; reflexivity|].
  destruct k as [|k]; cbn [set_nth nth]; [reflexivity|]. f_equal. apply IH.
Qed.

Lemma swap_list_perm {A} (l : list A) (d : A) i j :
  (i < length l)%nat -> (j < length l)%nat ->
  Permutation (set_nth j (nth i l d) (set_nth i (nth j l d) l)) l.
Proof.
  intros Hi Hj.
  rewrite (ContainerProofs.list_as_nth (set_nth j (nth i l d) (set_nth i (nth j l d) l)) d).
  rewrite !set_nth_length.
  rewrite (map_ext_in _ (fun k => nth (ContainerProofs.transp i j k) l d)).
  - apply perm_trans with (map (fun k => nth k l d) (seq 0 (length l)));
      [| rewrite <- ContainerProofs.list_as_nth; apply Permutation_refl].
    rewrite <- (map_map (ContainerProofs.transp i j) (fun k => nth k l d)).
    apply Permutation_map. apply ContainerProofs.transp_perm; assumption.
  - intros k Hk. apply in_seq in Hk. rewrite !nth_set_nth, set_nth_length.
    unfold ContainerProofs.transp.
    destruct (Nat.ltb_spec j (length l)); [|lia]. destruct (Nat.ltb_spec i (length l)); [|lia].
    destruct (Nat.eqb_spec k j) as [->|Hkj].
    + destruct (Nat.eqb_spec j i) as [E|E]; [rewrite E; reflexivity | reflexivity].
    + destruct (Nat.eqb_spec k i) as [->|Hki]; reflexivity.
Qed.

Lemma rect_shape L rs rs' : shape rs' = shape rs -> rect L rs -> rect L rs'.
Proof.
  unfold shape, rect. revert rs'. induction rs as [|a t IH]; intros rs' Hs Hr r Hin.
  - destruct rs'; [destruct Hin | discriminate].
  - destruct rs' as [|a' t']; [destruct Hin|]. cbn [map] in Hs. injection Hs as E1 E2 E3.
    destruct Hin as [<-|Hin]; [rewrite E2; apply Hr; left; reflexivity|].
    apply (IH t' E3); [intros x Hx; apply Hr; right; exact Hx | exact Hin].
Qed.

Lemma col_set_cell L rs i j b j' :
  rect L rs -> (Z.to_nat i < length rs)%nat ->
  col (set_cell rs i j b) j' =
    if Nat.eqb j' (Z.to_nat j) && Nat.ltb (Z.to_nat j) L then set_nth (Z.to_nat i) b (col rs j') else col rs j'.
Proof.
  intros Hr Hi. unfold col, set_cell. set (d := (@nil byte, @nil byte)). set (r := nth (Z.to_nat i) rs d).
  rewrite map_set_nth. cbn [snd]. rewrite nth_set_nth.
  assert (Hlen : length (snd r) = L) by (apply Hr; apply nth_In; exact Hi).
  rewrite Hlen.
  destruct (Nat.eqb j' (Z.to_nat j) && Nat.ltb (Z.to_nat j) L) eqn:E.
  - apply andb_true_iff in E as [E1 E2]. rewrite E1, E2. reflexivity.
  - set (f := fun r0 : list byte * list byte => nth j' (snd r0) x00).
    assert (X : (if Nat.eqb j' (Z.to_nat j) then if Nat.ltb (Z.to_nat j) L then b else nth j' (snd r) x00 else nth j' (snd r) x00)
                = nth (Z.to_nat i) (map f rs) x00).
    { rewrite (nth_indep (map f rs) x00 (f d)) by (rewrite map_length; exact Hi).
      rewrite map_nth. fold r. unfold f.
      destruct (Nat.eqb j' (Z.to_nat j)); [|reflexivity]. cbn [andb] in E. rewrite E. reflexivity. }
    rewrite X. apply set_nth_same.
Qed.

Theorem swap_cells_col_perm L rs i1 i2 j j' :
  rect L rs -> 0 <= i1 < Z.of_nat (length rs) -> 0 <= i2 < Z.of_nat (length rs) ->
  Permutation (col (swap_cells rs i1 i2 j) j') (col rs j').
Proof.
  intros Hr H1 H2. unfold swap_cells.
  assert (Hr1 : rect L (set_cell rs i1 j (cell rs i2 j))) by (apply (rect_shape L rs); [apply set_cell_shape | exact Hr]).
  assert (Hl1 : length (set_cell rs i1 j (cell rs i2 j)) = length rs).
  { pose proof (set_cell_shape rs i1 j (cell rs i2 j)) as S. apply (f_equal (@length _)) in S. unfold shape in S.
    rewrite !map_length in S. exact S. }
  rewrite (col_set_cell L _ i2 j _ j' Hr1) by (rewrite Hl1; lia).
  rewrite (col_set_cell L rs i1 j _ j' Hr) by lia.
  destruct (Nat.eqb j' (Z.to_nat j) && Nat.ltb (Z.to_nat j) L) eqn:E; [|apply Permutation_refl].
  apply andb_true_iff in E as [E1 E2]. apply Nat.eqb_eq in E1. apply Nat.ltb_lt in E2. subst j'.
  (* the two values are the entries of the column *)
  set (c := col rs (Z.to_nat j)).
  assert (Hc : length c = length rs) by (unfold c, col; apply map_length).
  assert (C1 : cell rs i1 j = nth (Z.to_nat i1) c x00).
  { unfold cell, c, col. set (f := fun r0 : list byte * list byte => nth (Z.to_nat j) (snd r0) x00).
    rewrite (nth_indep (map f rs) x00 (f ([], []))) by (rewrite map_length; lia).
    rewrite map_nth. reflexivity. }
  assert (C2 : cell rs i2 j = nth (Z.to_nat i2) c x00).
  { unfold cell, c, col. set (f := fun r0 : list byte * list byte => nth (Z.to_nat j) (snd r0) x00).
    rewrite (nth_indep (map f rs) x00 (f ([], []))) by (rewrite map_length; lia).
    rewrite map_nth. reflexivity. }
  rewrite C1, C2. apply swap_list_perm; rewrite Hc; lia.
Qed.

(* ---- Perm: every entry is an index ------------------------------------------------------------------ *)
Lemma upd_length : forall (l : list Z) k x, length (upd l k x) = length l.
Proof. induction l as [|h t IH]; intros k x; [destruct k; reflexivity|]. destruct k; cbn; [reflexivity | rewrite IH; reflexivity]. Qed.

Lemma upd_forall (P : Z -> Prop) : forall (l : list Z) k x, Forall P l -> P x -> Forall P (upd l k x).
Proof.
  induction l as [|h t IH]; intros k x Hl Hx; [destruct k; constructor|].
  inversion Hl as [|? ? Hh Ht]; subst. destruct k; cbn [upd]; constructor; auto.
Qed.

Lemma perm_loop_range (n : Z) : forall fuel i m t p r,
  tape_ok t -> 0 <= i -> i + Z.of_nat fuel <= n -> Forall (fun x => 0 <= x < n) m ->
  perm_loop fuel i m t = Some (p, r) ->
  length p = length m /\ Forall (fun x => 0 <= x < n) p /\ tape_ok r.
Proof.
  induction fuel as [|f IH]; intros i m t p r Ht Hi Hn Hm H; cbn [perm_loop] in H.
  - injection H as <- <-. auto.
  - destruct (intn (i + 1) t) as [[j t1]|] eqn:E; [|discriminate].
    pose proof (intn_range (i + 1) t j t1 ltac:(lia) Ht E) as Hj.
    pose proof (intn_tail (i + 1) t j t1 Ht E) as Ht1.
    assert (Hmj : 0 <= nth (Z.to_nat j) m 0 < n).
    { destruct (Nat.lt_ge_cases (Z.to_nat j) (length m)) as [Hl|Hl].
      - rewrite Forall_forall in Hm. apply Hm. apply nth_In. exact Hl.
      - rewrite nth_overflow by exact Hl. lia. }
    destruct (IH (i + 1) (upd (upd m (Z.to_nat i) (nth (Z.to_nat j) m 0)) (Z.to_nat j) i) t1 p r Ht1) as [H1 [H2 H3]];
      [lia | lia | apply upd_forall; [apply upd_forall; [exact Hm | exact Hmj] | lia] | exact H|].
    rewrite !upd_length in H1. auto.
Qed.

Lemma zperm_range n t p r : tape_ok t -> 0 < n -> zperm n t = Some (p, r) ->
  Forall (fun x => 0 <= x < n) p /\ tape_ok r.
Proof.
  intros Ht Hn H. unfold zperm, perm in H.
  destruct (perm_loop_range n (Z.to_nat n) 0 (repeat 0 (Z.to_nat n)) t p r Ht) as [_ [H2 H3]]; [lia | lia | | exact H | auto].
  apply Forall_forall. intros x Hx. apply repeat_spec in Hx. lia.
Qed.

Lemma nthZ_range n p k : 0 < n -> Forall (fun x => 0 <= x < n) p -> 0 <= nthZ p k < n.
Proof.
  intros Hn Hp. unfold nthZ. destruct (Nat.lt_ge_cases (Z.to_nat k) (length p)) as [Hl|Hl].
  - rewrite Forall_forall in Hp. apply Hp. apply nth_In. exact Hl.
  - rewrite nth_overflow by exact Hl. lia.
Qed.

(* ---- Swap: every column keeps its characters ------------------------------------------------------------ *)
Definition cols_permuted (rs rs' : rows) : Prop :=
  shape rs' = shape rs /\ forall j, Permutation (col rs' j) (col rs j).

Lemma shape_length rs rs' : shape rs' = shape rs -> length rs' = length rs.
Proof. intros S. apply (f_equal (@length _)) in S. unfold shape in S. rewrite !map_length in S. exact S. Qed.

Lemma swap_suffix_cols L s1 s2 Lz : forall fuel rs pos,
  rect L rs -> 0 <= s1 < Z.of_nat (length rs) -> 0 <= s2 < Z.of_nat (length rs) ->
  cols_permuted rs (swap_suffix fuel rs s1 s2 pos Lz).
Proof.
  induction fuel as [|f IH]; intros rs pos Hr H1 H2; cbn [swap_suffix]; [split; [reflexivity | intros j; apply Permutation_refl]|].
  destruct (pos <? Lz); [|split; [reflexivity | intros j; apply Permutation_refl]].
  pose proof (swap_cells_shape rs s1 s2 pos) as S.
  destruct (IH (swap_cells rs s1 s2 pos) (pos + 1)) as [S' P'].
  - apply (rect_shape L rs); assumption.
  - rewrite (shape_length _ _ S). exact H1.
  - rewrite (shape_length _ _ S). exact H2.
  - split; [congruence|]. intros j. eapply perm_trans; [apply P'|]. apply (swap_cells_col_perm L); assumption.
Qed.

Theorem swap_keeps_columns L rate pos rs t out r :
  tape_ok t -> rect L rs -> swap rate pos rs t = Some (out, r) -> cols_permuted rs out.
Proof.
  intros Ht Hr. unfold swap. cbv zeta. unfold bind at 1.
  destruct (zperm (nrows rs) t) as [[p t1]|] eqn:Ep; [|discriminate].
  destruct (Z.eq_dec (nrows rs) 0) as [E0|E0].
  - (* no row: nothing is swapped *)
    rewrite E0. replace (scale rate 0 / 2) with 0 by (unfold scale; rewrite Z.mul_0_r; reflexivity).
    cbn. unfold ret. intros H. injection H as <- _. split; [reflexivity | intros j; apply Permutation_refl].
  - assert (Hn : 0 < nrows rs) by (unfold nrows in *; lia).
    destruct (zperm_range (nrows rs) t p t1 Ht Hn Ep) as [Hp _].
    apply (for_each_inv (fun s => cols_permuted rs s)); [|split; [reflexivity | intros j; apply Permutation_refl]].
    intros s i t0 s' r0 [Ss Ps] H. unfold bind in H.
    destruct (match pos with None => intn (alen rs) | Some q => ret (scale q (alen rs)) end t0) as [[position t2]|]; [|discriminate].
    unfold ret in H. injection H as <- _.
    destruct (swap_suffix_cols L (nthZ p i) (nthZ p (i + scale rate (nrows rs) / 2)) (alen rs) (Z.to_nat (alen rs)) s position) as [S' P'].
    + apply (rect_shape L rs); assumption.
    + rewrite (shape_length _ _ Ss). apply nthZ_range; assumption.
    + rewrite (shape_length _ _ Ss). apply nthZ_range; assumption.
    + split; [congruence|]. intros j. eapply perm_trans; [apply P' | apply Ps].
Qed.

(* ---- ShuffleSites (with rogues): characters move within their column only ------------------------------- *)
Lemma for_each_inv_t {S A} (P : S -> Prop) (f : S -> A -> tape -> option (S * tape)) (l : list A) :
  (forall s x t s' r, In x l -> P s -> tape_ok t -> f s x t = Some (s', r) -> P s' /\ tape_ok r) ->
  forall s t s' r, P s -> tape_ok t -> for_each l f s t = Some (s', r) -> P s' /\ tape_ok r.
Proof.
  induction l as [|x l IH]; intros Hf s t s' r Hs Ht H; cbn [for_each] in H.
  - unfold ret in H. injection H as <- <-. auto.
  - unfold bind in H. destruct (f s x t) as [[s1 t1]|] eqn:E; [|discriminate].
    destruct (Hf s x t s1 t1 (or_introl eq_refl) Hs Ht E) as [Hs1 Ht1].
    apply (IH (fun s0 x0 t0 s0' r0 Hin => Hf s0 x0 t0 s0' r0 (or_intror Hin)) s1 t1 s' r Hs1 Ht1 H).
Qed.

Lemma fy_loop_inv_t {S} (P : S -> Prop) (sw : S -> Z -> Z -> S) (n0 : Z) :
  (forall s a b, P s -> 0 <= a < n0 -> 0 <= b < n0 -> P (sw s a b)) ->
  forall fuel n s t s' r, n <= n0 -> P s -> tape_ok t -> fy_loop fuel n sw s t = Some (s', r) -> P s' /\ tape_ok r.
Proof.
  intros Hsw. induction fuel as [|f IH]; intros n s t s' r Hn Hs Ht H; cbn [fy_loop] in H.
  - unfold ret in H. injection H as <- <-. auto.
  - destruct (Z.leb_spec n 1) as [Hle|Hgt].
    + unfold ret in H. injection H as <- <-. auto.
    + unfold bind in H. destruct (intn n t) as [[v t1]|] eqn:E; [|discriminate].
      pose proof (intn_range n t v t1 ltac:(lia) Ht E) as Hv. pose proof (intn_tail n t v t1 Ht E) as Ht1.
      apply (IH (n - 1) (sw s (n - 1) v) t1 s' r); [lia | apply Hsw; [exact Hs | lia | lia] | exact Ht1 | exact H].
Qed.

Lemma in_zseq k n : In k (zseq n) -> 0 <= k < n.
Proof. unfold zseq. intros H. apply in_map_iff in H as [x [<- Hx]]. apply in_seq in Hx. lia. Qed.

Lemma scale_zero q : scale q 0 = 0.
Proof. unfold scale. rewrite Z.mul_0_r. reflexivity. Qed.

Lemma cols_permuted_refl rs : cols_permuted rs rs.
Proof. split; [reflexivity | intros j; apply Permutation_refl]. Qed.

Lemma cols_permuted_swap L rs s a b j :
  rect L rs -> cols_permuted rs s -> 0 <= a < nrows rs -> 0 <= b < nrows rs -> cols_permuted rs (swap_cells s a b j).
Proof.
  intros Hr [Ss Ps] Ha Hb. split; [rewrite swap_cells_shape; exact Ss|].
  intros j'. eapply perm_trans; [|apply Ps].
  apply (swap_cells_col_perm L); [apply (rect_shape L rs); assumption | |]; rewrite (shape_length _ _ Ss); unfold nrows in *; lia.
Qed.

Theorem shuffle_sites_keeps_columns L rate roguerate roguefirst rs t out rogues r :
  tape_ok t -> rect L rs -> 0 < alen rs ->
  shuffle_sites rate roguerate roguefirst rs t = Some ((out, rogues), r) -> cols_permuted rs out.
Proof.
  intros Ht Hr HL. unfold shuffle_sites. cbv zeta.
  assert (Hn : 0 < nrows rs).
  { unfold alen in HL. unfold nrows. destruct rs; [lia | cbn [length]; lia]. }
  unfold bind at 1.
  destruct ((if roguefirst
             then tp <- zperm (nrows rs);; sp <- zperm (alen rs);; ret (tp, sp)
             else sp <- zperm (alen rs);; tp <- zperm (nrows rs);; ret (tp, sp)) t) as [[[taxperm siteperm] t1]|] eqn:Ep; [|discriminate].
  assert (Hperm : Forall (fun x => 0 <= x < nrows rs) taxperm /\ tape_ok t1).
  { destruct roguefirst; unfold bind, ret in Ep.
    - destruct (zperm (nrows rs) t) as [[tp ta]|] eqn:E1; [|discriminate].
      destruct (zperm_range _ _ _ _ Ht Hn E1) as [R1 Ta].
      destruct (zperm (alen rs) ta) as [[sp tb]|] eqn:E2; [|discriminate].
      destruct (zperm_range _ _ _ _ Ta HL E2) as [_ Tb]. injection Ep as <- <- <-. auto.
    - destruct (zperm (alen rs) t) as [[sp ta]|] eqn:E1; [|discriminate].
      destruct (zperm_range _ _ _ _ Ht HL E1) as [_ Ta].
      destruct (zperm (nrows rs) ta) as [[tp tb]|] eqn:E2; [|discriminate].
      destruct (zperm_range _ _ _ _ Ta Hn E2) as [R2 Tb]. injection Ep as <- <- <-. auto. }
  destruct Hperm as [Htax Ht1].
  unfold bind at 1.
  destruct (for_each (zseq (scale rate (alen rs)))
              (fun s i => fy_loop (length rs) (nrows rs) (fun s' a b => swap_cells s' a b (nthZ siteperm i)) s) rs t1)
    as [[rs1 t2]|] eqn:E1; [|discriminate].
  assert (H1 : cols_permuted rs rs1 /\ tape_ok t2).
  { revert E1. apply (for_each_inv_t (fun s => cols_permuted rs s)); [|apply cols_permuted_refl | exact Ht1].
    intros s i t0 s' r0 _ Hs Ht0. apply (fy_loop_inv_t (fun s => cols_permuted rs s) _ (nrows rs)); [|lia | exact Hs | exact Ht0].
    intros s0 a b Hs0 Ha Hb. apply (cols_permuted_swap L); assumption. }
  destruct H1 as [H1 Ht2].
  unfold bind at 1.
  match goal with |- context [for_each ?l ?f (rs1, ?acc) t2] =>
    destruct (for_each l f (rs1, acc) t2) as [[res t3]|] eqn:E2; [|discriminate] end.
  unfold ret. intros H. injection H as -> _.
  assert (H2 : cols_permuted rs (fst (out, rogues)) /\ tape_ok t3).
  { revert E2. apply (for_each_inv_t (fun st : rows * list (list byte) => cols_permuted rs (fst st))); [|exact H1 | exact Ht2].
    intros st i t0 st' r0 _ Hst Ht0.
    apply (for_each_inv_t (fun st : rows * list (list byte) => cols_permuted rs (fst st))); [|exact Hst | exact Ht0].
    intros st1 x t4 st2 r1 Hx Hst1 Ht4 H. unfold bind in H. destruct (intn (x + 1) t4) as [[j t5]|] eqn:Ej; [|discriminate].
    pose proof (in_zseq _ _ Hx) as Hxr.
    pose proof (intn_tail (x + 1) t4 j t5 Ht4 Ej) as Ht5.
    unfold ret in H. injection H as <- <-. cbn [fst]. split; [|exact Ht5].
    apply (cols_permuted_swap L); [exact Hr | exact Hst1 | apply nthZ_range; assumption | apply nthZ_range; assumption]. }
  exact (proj1 H2).
Qed.

(* ---- Recombine only copies residues between rows at the same column ------------------------------------- *)
Definition cols_within (rs rs' : rows) : Prop :=
  shape rs' = shape rs /\ forall j x, In x (col rs' j) -> In x (col rs j).

Lemma cols_within_refl rs : cols_within rs rs. Proof. split; [reflexivity | auto]. Qed.

Lemma in_set_nth {A} (x y : A) : forall l k, In x (set_nth k y l) -> x = y \/ In x l.
Proof.
  induction l as [|h t IH]; intros k H; [destruct k; destruct H|].
  destruct k as [|k]; cbn [set_nth] in H.
  - destruct H as [<-|H]; [left; reflexivity | right; right; exact H].
  - destruct H as [<-|H]; [right; left; reflexivity|]. destruct (IH k H) as [E|E]; [left; exact E | right; right; exact E].
Qed.

Lemma cell_in_col L rs i j : rect L rs -> 0 <= i < Z.of_nat (length rs) -> (Z.to_nat j < L)%nat -> In (cell rs i j) (col rs (Z.to_nat j)).
Proof.
  intros Hr Hi Hj. unfold cell, col. set (f := fun r0 : list byte * list byte => nth (Z.to_nat j) (snd r0) x00).
  change (In (f (nth (Z.to_nat i) rs ([], []))) (map f rs)). apply in_map. apply nth_In. lia.
Qed.

(* writing, into a column, a value that the original column holds *)
Lemma cols_within_set L rs s i j b :
  rect L rs -> cols_within rs s -> 0 <= i < Z.of_nat (length rs) ->
  ((Z.to_nat j < L)%nat -> In b (col rs (Z.to_nat j))) ->
  cols_within rs (set_cell s i j b).
Proof.
  intros Hr [Ss Ps] Hi Hb. split; [rewrite set_cell_shape; exact Ss|].
  intros j' x Hx. rewrite (col_set_cell L s i j b j') in Hx; [| apply (rect_shape L rs); assumption | rewrite (shape_length _ _ Ss); lia].
  destruct (Nat.eqb j' (Z.to_nat j) && Nat.ltb (Z.to_nat j) L) eqn:E; [|apply Ps; exact Hx].
  apply andb_true_iff in E as [E1 E2]. apply Nat.eqb_eq in E1. apply Nat.ltb_lt in E2. subst j'.
  apply in_set_nth in Hx as [->|Hx]; [apply Hb; exact E2 | apply Ps; exact Hx].
Qed.

Lemma recomb_window_within L rs s1 s2 e sw : forall fuel s j,
  rect L rs -> cols_within rs s -> 0 <= s1 < Z.of_nat (length rs) -> 0 <= s2 < Z.of_nat (length rs) ->
  cols_within rs (recomb_window fuel s s1 s2 j e sw).
Proof.
  induction fuel as [|f IH]; intros s j Hr Hs H1 H2; cbn [recomb_window]; [exact Hs|].
  destruct (j <? e); [|exact Hs]. cbv zeta.
  assert (Hrs : rect L s) by (apply (rect_shape L rs); [exact (proj1 Hs) | exact Hr]).
  assert (Hls : length s = length rs) by (apply shape_length; exact (proj1 Hs)).
  assert (A : cols_within rs (set_cell s s1 j (cell s s2 j))).
  { apply (cols_within_set L); [exact Hr | exact Hs | exact H1|]. intros Hj. apply (proj2 Hs).
    apply (cell_in_col L); [exact Hrs | rewrite Hls; exact H2 | exact Hj]. }
  apply IH; [exact Hr | | exact H1 | exact H2].
  destruct sw; [|exact A].
  apply (cols_within_set L); [exact Hr | exact A | exact H2|]. intros Hj. apply (proj2 Hs).
  apply (cell_in_col L); [exact Hrs | rewrite Hls; exact H1 | exact Hj].
Qed.

Theorem recombine_copies_within_columns L prop lenprop sw rs t out r :
  tape_ok t -> rect L rs -> recombine prop lenprop sw rs t = Some (out, r) -> cols_within rs out.
Proof.
  intros Ht Hr. unfold recombine. cbv zeta. unfold bind at 1.
  destruct (zperm (nrows rs) t) as [[p t1]|] eqn:Ep; [|discriminate].
  destruct (Z.eq_dec (nrows rs) 0) as [E0|E0].
  - rewrite E0, scale_zero. cbn. unfold ret. intros H. injection H as <- _. apply cols_within_refl.
  - assert (Hn : 0 < nrows rs) by (unfold nrows in *; lia).
    destruct (zperm_range (nrows rs) t p t1 Ht Hn Ep) as [Hp _].
    apply (for_each_inv (fun s => cols_within rs s)); [|apply cols_within_refl].
    intros s i t0 s' r0 Hs H. unfold bind in H.
    destruct (intn (alen rs - scale lenprop (alen rs) + 1) t0) as [[pos t2]|]; [|discriminate].
    unfold ret in H. injection H as <- _.
    apply (recomb_window_within L); [exact Hr | exact Hs | apply nthZ_range; assumption | apply nthZ_range; assumption].
Qed.

(* ---- SimulateRogue: shape ------------------------------------------------------------------------------ *)
Theorem simulate_rogue_keeps_shape prop proplen rs t rogue intact out r :
  simulate_rogue prop proplen rs t = Some ((rogue, intact, out), r) -> shape out = shape rs.
Proof.
  unfold simulate_rogue. cbv zeta. unfold bind at 1. destruct (zperm (nrows rs) t) as [[p t1]|]; [|discriminate].
  unfold bind at 1.
  match goal with |- context [for_each ?l ?f rs t1] => destruct (for_each l f rs t1) as [[rs' t2]|] eqn:E; [|discriminate] end.
  unfold ret. intros H. injection H as _ _ <- _.
  revert E. apply (for_each_inv (fun s => shape s = shape rs)); [|reflexivity].
  intros s x t0 s' r0 Hs H. unfold bind in H. destruct (zperm (alen rs) t0) as [[ps t3]|]; [|discriminate].
  revert H. apply (for_each_inv (fun s => shape s = shape rs)); [|exact Hs].
  intros s1 i t4 s2 r1 Hs1 H. unfold bind in H. destruct (intn (i + 1) t4) as [[j t5]|]; [|discriminate].
  unfold ret in H. injection H as <- _. cbv zeta. rewrite !set_cell_shape. exact Hs1.
Qed.

(* ---- Perm returns a permutation of 0 .. n-1 (inside-out Fisher-Yates) ---------------------------------- *)
Definition zs (k : nat) : list Z := map Z.of_nat (seq 0 k).

Lemma zs_S k : zs (S k) = zs k ++ [Z.of_nat k].
Proof. unfold zs. rewrite seq_S, map_app. reflexivity. Qed.

Lemma firstn_upd_ge : forall (l : list Z) k x n, (n <= k)%nat -> firstn n (upd l k x) = firstn n l.
Proof.
  induction l as [|h t IH]; intros k x n H; [destruct k; reflexivity|].
  destruct n as [|n]; [reflexivity|]. destruct k as [|k]; [lia|]. cbn [upd firstn]. f_equal. apply IH. lia.
Qed.

Lemma firstn_S_upd_at : forall (l : list Z) k x, (k < length l)%nat -> firstn (S k) (upd l k x) = firstn k l ++ [x].
Proof.
  induction l as [|h t IH]; intros k x H; [cbn in H; lia|].
  destruct k as [|k]; [reflexivity|]. cbn [upd firstn app]. f_equal. apply IH. cbn in H. lia.
Qed.

Lemma firstn_upd_lt : forall (l : list Z) j x n, (j < n)%nat -> firstn n (upd l j x) = upd (firstn n l) j x.
Proof.
  induction l as [|h t IH]; intros j x n H; [destruct j, n; reflexivity|].
  destruct n as [|n]; [lia|]. destruct j as [|j]; [reflexivity|]. cbn [upd firstn]. f_equal. apply IH. lia.
Qed.

Lemma nth_upd_other : forall (l : list Z) k x j d, j <> k -> nth j (upd l k x) d = nth j l d.
Proof.
  induction l as [|h t IH]; intros k x j d H; [destruct k; reflexivity|].
  destruct k as [|k]; destruct j as [|j]; cbn [upd nth]; try reflexivity; [lia | apply IH; lia].
Qed.

Lemma perm_upd_swap : forall (l : list Z) j x d, (j < length l)%nat ->
  Permutation (upd l j x ++ [nth j l d]) (l ++ [x]).
Proof.
  induction l as [|h t IH]; intros j x d H; [cbn in H; lia|].
  destruct j as [|j]; cbn [upd nth app].
  - apply perm_trans with (h :: x :: t); [apply perm_trans with (x :: h :: t)|].
    + constructor. apply Permutation_sym. apply Permutation_cons_append.
    + apply perm_swap.
    + constructor. apply Permutation_cons_append.
  - constructor. apply IH. cbn in H. lia.
Qed.

Lemma nth_firstn_lt : forall (l : list Z) n j d, (j < n)%nat -> nth j (firstn n l) d = nth j l d.
Proof.
  induction l as [|h t IH]; intros n j d H; [destruct n, j; reflexivity|].
  destruct n as [|n]; [lia|]. destruct j as [|j]; [reflexivity|]. cbn [firstn nth]. apply IH. lia.
Qed.

Lemma upd_app_lt : forall (l : list Z) j x y, (j < length l)%nat -> upd (l ++ [y]) j x = upd l j x ++ [y].
Proof.
  induction l as [|h t IH]; intros j x y H; [cbn in H; lia|]. destruct j as [|j]; [reflexivity|].
  cbn [upd app]. f_equal. apply IH. cbn in H. lia.
Qed.

Lemma perm_loop_is_perm (n : nat) : forall fuel k m t p r,
  tape_ok t -> (k + fuel = n)%nat -> length m = n -> Permutation (firstn k m) (zs k) ->
  perm_loop fuel (Z.of_nat k) m t = Some (p, r) -> Permutation p (zs n).
Proof.
  induction fuel as [|f IH]; intros k m t p r Ht Hk Hm Hp H; cbn [perm_loop] in H.
  - injection H as <- _. replace k with n in Hp by lia. rewrite firstn_all2 in Hp by lia. exact Hp.
  - destruct (intn (Z.of_nat k + 1) t) as [[j t1]|] eqn:E; [|discriminate].
    pose proof (intn_range (Z.of_nat k + 1) t j t1 ltac:(lia) Ht E) as Hj. pose proof (intn_tail (Z.of_nat k + 1) t j t1 Ht E) as Ht1.
    rewrite Nat2Z.id in H. set (jn := Z.to_nat j) in *.
    replace (Z.of_nat k + 1) with (Z.of_nat (S k)) in H by lia.
    apply (IH (S k) (upd (upd m k (nth jn m 0)) jn (Z.of_nat k)) t1 p r Ht1); [lia | rewrite !upd_length; exact Hm | | exact H].
    rewrite zs_S.
    destruct (Nat.eq_dec jn k) as [Ejk|Ejk].
    + (* the new index is appended *)
      rewrite Ejk. rewrite firstn_S_upd_at by (rewrite upd_length; lia).
      rewrite firstn_upd_ge by lia. apply Permutation_app_tail. exact Hp.
    + assert (Hjk : (jn < k)%nat) by (unfold jn in *; lia).
      rewrite firstn_upd_lt by lia. rewrite firstn_S_upd_at by lia.
      (* upd (firstn k m ++ [m_j]) j k *)
      assert (U : upd (firstn k m ++ [nth jn m 0]) jn (Z.of_nat k) = upd (firstn k m) jn (Z.of_nat k) ++ [nth jn m 0])
        by (apply upd_app_lt; rewrite firstn_length; lia).
      rewrite U. rewrite <- (nth_firstn_lt m k jn 0 Hjk).
      eapply perm_trans; [apply perm_upd_swap; rewrite firstn_length; lia|].
      apply Permutation_app_tail. exact Hp.
Qed.

Theorem zperm_is_permutation n t p r : tape_ok t -> zperm n t = Some (p, r) -> Permutation p (zs (Z.to_nat n)).
Proof.
  intros Ht H. unfold zperm, perm in H.
  apply (perm_loop_is_perm (Z.to_nat n) (Z.to_nat n) 0 (repeat 0 (Z.to_nat n)) t p r Ht); [lia | apply repeat_length | apply Permutation_refl | exact H].
Qed.

(* ---- sampling draws distinct original rows / distinct columns ------------------------------------------- *)
Lemma zs_nodup k : NoDup (zs k).
Proof.
  unfold zs. apply FinFun.Injective_map_NoDup; [intros a b H; lia | apply seq_NoDup].
Qed.

Lemma zs_in k x : In x (zs k) <-> 0 <= x < Z.of_nat k.
Proof.
  unfold zs. rewrite in_map_iff. split.
  - intros [y [<- Hy]]. apply in_seq in Hy. lia.
  - intros H. exists (Z.to_nat x). split; [lia | apply in_seq; lia].
Qed.

Lemma firstn_incl_in {A} (l : list A) n x : In x (firstn n l) -> In x l.
Proof. revert n. induction l as [|h t IH]; intros n H; [destruct n; destruct H|]. destruct n; [destruct H|]. destruct H as [<-|H]; [left; reflexivity | right; apply (IH n H)]. Qed.

Lemma firstn_nodup {A} (l : list A) n : NoDup l -> NoDup (firstn n l).
Proof.
  revert n. induction l as [|h t IH]; intros n H; [destruct n; constructor|].
  destruct n as [|n]; [constructor|]. inversion H as [|? ? Hh Ht]; subst. cbn [firstn]. constructor; [|apply IH; exact Ht].
  intros Hin. apply Hh. apply (firstn_incl_in _ _ _ Hin).
Qed.

(* Sample: the rows returned are original rows taken at pairwise distinct positions *)
Theorem sample_rows_distinct nb rs t out r :
  tape_ok t -> sample_rows nb rs t = Some (Some out, r) ->
  exists idx, NoDup idx /\ (forall k, In k idx -> 0 <= k < nrows rs) /\ length idx = Z.to_nat nb /\
              out = map (fun k => nth (Z.to_nat k) rs ([], [])) idx.
Proof.
  intros Ht H. unfold sample_rows in H. destruct ((nrows rs <? nb) || (nb <? 1)) eqn:Eb; [unfold ret in H; discriminate|].
  apply orb_false_iff in Eb as [E1 E2]. apply Z.ltb_ge in E1, E2.
  unfold bind in H. destruct (zperm (nrows rs) t) as [[p t1]|] eqn:Ep; [|discriminate].
  unfold ret in H. injection H as <- _.
  pose proof (zperm_is_permutation _ _ _ _ Ht Ep) as Pp.
  exists (firstn (Z.to_nat nb) p). split; [|split; [|split; [|reflexivity]]].
  - apply firstn_nodup. apply (Permutation_NoDup (Permutation_sym Pp)). apply zs_nodup.
  - intros k Hk. apply firstn_incl_in in Hk. apply (Permutation_in _ Pp) in Hk. apply zs_in in Hk. unfold nrows in *. lia.
  - rewrite firstn_length. rewrite (Permutation_length Pp). unfold zs. rewrite map_length, seq_length. unfold nrows in *. lia.
Qed.

(* RandSubAlign, scattered mode: the columns returned are original columns taken at pairwise distinct positions *)
Theorem rand_sub_align_distinct len rs t out r :
  tape_ok t -> rand_sub_align len false rs t = Some (Some out, r) ->
  exists idx, NoDup idx /\ (forall k, In k idx -> 0 <= k < alen rs) /\ length idx = Z.to_nat len /\ out = pick_cols rs idx.
Proof.
  intros Ht H. unfold rand_sub_align in H. destruct ((alen rs <? len) || (len <=? 0)) eqn:Eb; [unfold ret in H; discriminate|].
  apply orb_false_iff in Eb as [E1 E2]. apply Z.ltb_ge in E1. apply Z.leb_gt in E2.
  unfold bind in H. destruct (zperm (alen rs) t) as [[p t1]|] eqn:Ep; [|discriminate].
  unfold ret in H. injection H as <- _.
  pose proof (zperm_is_permutation _ _ _ _ Ht Ep) as Pp.
  exists (firstn (Z.to_nat len) p). split; [|split; [|split; [|reflexivity]]].
  - apply firstn_nodup. apply (Permutation_NoDup (Permutation_sym Pp)). apply zs_nodup.
  - intros k Hk. apply firstn_incl_in in Hk. apply (Permutation_in _ Pp) in Hk. apply zs_in in Hk. lia.
  - rewrite firstn_length. rewrite (Permutation_length Pp). unfold zs. rewrite map_length, seq_length. lia.
Qed.

(* SimulateRogue: the rogue and intact names together are the names of the rows, each once *)
Lemma map_seq_offset : forall b a, map Z.of_nat (seq a b) = map (fun x => Z.of_nat x + Z.of_nat a) (seq 0 b).
Proof.
  induction b as [|b IH]; intros a; [reflexivity|]. cbn [seq map]. f_equal.
  rewrite (IH (S a)). rewrite <- (seq_shift b 0), map_map. apply map_ext. intros x. lia.
Qed.

Lemma zseq_split n nb : 0 <= nb <= n -> zseq nb ++ map (fun k => k + nb) (zseq (n - nb)) = zseq n.
Proof.
  intros H. unfold zseq. replace (Z.to_nat n) with (Z.to_nat nb + Z.to_nat (n - nb))%nat by lia.
  rewrite seq_app, map_app. f_equal. rewrite map_map. cbn [Nat.add].
  rewrite map_seq_offset. apply map_ext. intros x. lia.
Qed.

Lemma map_nthZ_zseq (p : list Z) : map (nthZ p) (zseq (Z.of_nat (length p))) = p.
Proof.
  unfold zseq. rewrite Nat2Z.id, map_map. transitivity (map (fun k => nth k p 0) (seq 0 (length p)));
    [|symmetry; apply ContainerProofs.list_as_nth].
  apply map_ext. intros k. unfold nthZ. rewrite Nat2Z.id. reflexivity.
Qed.

Lemma names_by_index (rs : rows) :
  map (fun k => fst (nth (Z.to_nat k) rs ([], []))) (zs (length rs)) = map fst rs.
Proof.
  unfold zs. rewrite map_map.
  transitivity (map fst (map (fun k => nth k rs ([], [])) (seq 0 (length rs))));
    [|f_equal; symmetry; apply ContainerProofs.list_as_nth].
  rewrite map_map. apply map_ext. intros k. rewrite Nat2Z.id. reflexivity.
Qed.

Theorem rogue_names_partition_rows prop proplen rs t rogue intact out r :
  tape_ok t ->
  0 <= scale (if Qeq_bool proplen 0 then 0%Q else prop) (nrows rs) <= nrows rs ->
  simulate_rogue prop proplen rs t = Some ((rogue, intact, out), r) ->
  Permutation (rogue ++ intact) (map fst rs).
Proof.
  intros Ht Hnb. unfold simulate_rogue. cbv zeta. unfold bind at 1.
  destruct (zperm (nrows rs) t) as [[p t1]|] eqn:Ep; [|discriminate].
  unfold bind at 1.
  match goal with |- context [for_each ?l ?f rs t1] => destruct (for_each l f rs t1) as [[rs' t2]|]; [|discriminate] end.
  unfold ret. intros H. injection H as <- <- _ _.
  pose proof (zperm_is_permutation _ _ _ _ Ht Ep) as Pp.
  assert (Hlen : Z.of_nat (length p) = nrows rs).
  { rewrite (Permutation_length Pp). unfold zs. rewrite map_length, seq_length. unfold nrows. lia. }
  rewrite <- map_app.
  set (nm := fun k => fst (nth (Z.to_nat k) rs ([], []))).
  change (Permutation (map (fun r0 => nm (nthZ p r0)) (zseq (scale (if Qeq_bool proplen 0 then 0%Q else prop) (nrows rs)) ++
                        map (fun k => k + scale (if Qeq_bool proplen 0 then 0%Q else prop) (nrows rs))
                            (zseq (nrows rs - scale (if Qeq_bool proplen 0 then 0%Q else prop) (nrows rs)))))
                      (map fst rs)).
  rewrite zseq_split by exact Hnb. rewrite <- (map_map (nthZ p) nm). rewrite <- Hlen, map_nthZ_zseq.
  rewrite <- names_by_index. apply Permutation_map.
  replace (length rs) with (Z.to_nat (nrows rs)) by (unfold nrows; lia). exact Pp.
Qed.

(* ---- Mutate: a changed cell held a residue and receives a letter of the alphabet ---------------------- *)
Lemma float64_tail : forall t f r, tape_ok t -> float64 t = Some (f, r) -> tape_ok r.
Proof.
  induction t as [|v t IH]; intros f r Ht H; cbn [float64] in H; [discriminate|].
  inversion Ht as [|? ? Hv Ht']; subst. cbv zeta in H.
  destruct (Z.eqb (round53 v) (2 ^ 63)); [apply (IH f r Ht' H)|]. injection H as _ <-. exact Ht'.
Qed.

Definition mut_letters (alphabet : Z) : list byte := if Z.eqb alphabet AMINOACIDS then stdaminoacid else stdnucleotides.

Definition mutated_ok (alphabet : Z) (rs rs' : rows) : Prop :=
  forall i j, cell rs' i j = cell rs i j \/ (special_cell (cell rs i j) = false /\ In (cell rs' i j) (mut_letters alphabet)).

Lemma letters_not_special alphabet b : In b (mut_letters alphabet) -> special_cell b = false.
Proof.
  unfold mut_letters. destruct (Z.eqb alphabet AMINOACIDS); intros H;
    repeat (destruct H as [<-|H]; [reflexivity|]); destruct H.
Qed.

Lemma mutated_ok_trans alphabet a b c : mutated_ok alphabet a b -> mutated_ok alphabet b c -> mutated_ok alphabet a c.
Proof.
  intros H1 H2 i j. destruct (H2 i j) as [E|[N I]].
  - rewrite E. apply H1.
  - destruct (H1 i j) as [E1|[N1 I1]].
    + right. rewrite <- E1. auto.
    + right. auto.
Qed.

Theorem mutate_substitutes_letters_for_residues alphabet rate rs t out r :
  tape_ok t -> mutate alphabet rate rs t = Some (out, r) -> mutated_ok alphabet rs out.
Proof.
  intros Ht. unfold mutate. destruct (Qle_bool rate 0); [unfold ret; intros H; injection H as <- _; intros i j; left; reflexivity|].
  cbv zeta. fold (mut_letters alphabet). intros H.
  apply (for_each_inv_t (fun s => mutated_ok alphabet rs s) _ _) in H; [exact (proj1 H) | | intros i j; left; reflexivity | exact Ht].
  intros s i t0 s' r0 _ Hs Ht0.
  apply (for_each_inv_t (fun s => mutated_ok alphabet rs s)); [|exact Hs | exact Ht0].
  intros s1 j t1 s2 r1 _ Hs1 Ht1 H1. unfold bind in H1. destruct (float64 t1) as [[f t2]|] eqn:Ef; [|discriminate].
  pose proof (float64_tail t1 f t2 Ht1 Ef) as Ht2.
  destruct (Qle_bool (fst f # Z.to_pos (snd f)) (if Qle_bool rate 1 then rate else 1%Q)); cbn [andb] in H1;
    [|unfold ret in H1; injection H1 as <- <-; auto].
  destruct (beqb (cell s1 i j) GAP) eqn:E1; cbn [negb andb] in H1; [unfold ret in H1; injection H1 as <- <-; auto|].
  destruct (beqb (cell s1 i j) POINT) eqn:E2; cbn [negb andb] in H1; [unfold ret in H1; injection H1 as <- <-; auto|].
  destruct (beqb (cell s1 i j) OTHER) eqn:E3; cbn [negb andb] in H1; [unfold ret in H1; injection H1 as <- <-; auto|].
  unfold bind in H1. destruct (intn (Z.of_nat (length (mut_letters alphabet))) t2) as [[k t3]|] eqn:Ek; [|discriminate].
  assert (Hpos : 0 < Z.of_nat (length (mut_letters alphabet))) by (unfold mut_letters; destruct (Z.eqb alphabet AMINOACIDS); cbn; lia).
  pose proof (intn_range _ t2 k t3 Hpos Ht2 Ek) as Hk. pose proof (intn_tail _ t2 k t3 Ht2 Ek) as Ht3.
  unfold ret in H1. injection H1 as <- <-. split; [|exact Ht3].
  apply (mutated_ok_trans alphabet rs s1); [exact Hs1|].
  intros i' j'. rewrite cell_set_cell.
  destruct (Nat.eqb_spec (Z.to_nat i') (Z.to_nat i)) as [Ei|Ei]; cbn [andb]; [|left; reflexivity].
  destruct (Nat.eqb_spec (Z.to_nat j') (Z.to_nat j)) as [Ej|Ej]; cbn [andb]; [|left; reflexivity].
  destruct (Nat.ltb (Z.to_nat i) (length s1) && Nat.ltb (Z.to_nat j) (length (snd (nth (Z.to_nat i) s1 ([], []))))); [|left; reflexivity].
  right. split.
  - unfold cell. rewrite Ei, Ej. unfold special_cell. unfold cell in E1, E2, E3. rewrite E1, E2, E3. reflexivity.
  - apply nth_In. lia.
Qed.

(* ---- SimulateRogue permutes residues within rows only ---------------------------------------------------- *)
Definition rows_permuted (rs rs' : rows) : Prop :=
  shape rs' = shape rs /\ forall k, Permutation (snd (nth k rs' ([], []))) (snd (nth k rs ([], []))).

Lemma rows_permuted_refl rs : rows_permuted rs rs.
Proof. split; [reflexivity | intros k; apply Permutation_refl]. Qed.

Lemma rect_nth L (rs : rows) k : rect L rs -> (k < length rs)%nat -> length (snd (nth k rs ([], []))) = L.
Proof. intros Hr Hk. apply Hr. apply nth_In. exact Hk. Qed.

Lemma row_swap_permuted L s row c1 c2 :
  rect L s -> 0 <= row < Z.of_nat (length s) -> (Z.to_nat c1 < L)%nat -> (Z.to_nat c2 < L)%nat ->
  rows_permuted s (set_cell (set_cell s row c1 (cell s row c2)) row c2 (cell s row c1)).
Proof.
  intros Hr Hrow H1 H2. split; [rewrite !set_cell_shape; reflexivity|].
  intros k. unfold set_cell. set (d := (@nil byte, @nil byte)). set (nr := Z.to_nat row).
  rewrite !nth_set_nth, !set_nth_length.
  assert (Hnr : (nr < length s)%nat) by (unfold nr; lia).
  destruct (Nat.ltb_spec nr (length s)) as [_|?]; [|lia].
  rewrite Nat.eqb_refl. cbn [fst snd].
  destruct (Nat.eqb_spec k nr) as [->|Hk]; [|apply Permutation_refl].
  cbn [snd]. unfold cell. fold nr. fold d.
  pose proof (rect_nth L s nr Hr Hnr) as HLr. fold d in HLr.
  apply (swap_list_perm (snd (nth nr s d)) x00 (Z.to_nat c1) (Z.to_nat c2)); rewrite HLr; assumption.
Qed.

Lemma rows_permuted_trans a b c : rows_permuted a b -> rows_permuted b c -> rows_permuted a c.
Proof. intros [S1 P1] [S2 P2]. split; [congruence|]. intros k. eapply perm_trans; [apply P2 | apply P1]. Qed.

Theorem rogue_permutes_within_rows L prop proplen rs t rogue intact out r :
  tape_ok t -> rect L rs -> rs <> [] ->
  simulate_rogue prop proplen rs t = Some ((rogue, intact, out), r) -> rows_permuted rs out.
Proof.
  intros Ht Hr Hne. unfold simulate_rogue. cbv zeta.
  assert (Hn : 0 < nrows rs) by (unfold nrows; destruct rs; [contradiction | cbn [length]; lia]).
  assert (HL : alen rs = Z.of_nat L).
  { destruct rs as [|r0 rt]; [contradiction|]. unfold alen. f_equal. apply Hr. left. reflexivity. }
  unfold bind at 1. destruct (zperm (nrows rs) t) as [[p t1]|] eqn:Ep; [|discriminate].
  destruct (zperm_range _ _ _ _ Ht Hn Ep) as [Hp Ht1].
  unfold bind at 1.
  match goal with |- context [for_each ?l ?f rs t1] => destruct (for_each l f rs t1) as [[rs' t2]|] eqn:E; [|discriminate] end.
  unfold ret. intros H. injection H as _ _ <- _.
  revert E. intros E. apply (for_each_inv_t (fun s => rows_permuted rs s)) in E; [exact (proj1 E) | | apply rows_permuted_refl | exact Ht1].
  intros s x t0 s' r0 _ Hs Ht0 H. unfold bind in H. destruct (zperm (alen rs) t0) as [[ps t3]|] eqn:Eps; [|discriminate].
  destruct (Z_le_gt_dec (alen rs) 0) as [HL0|HL0].
  - (* no column: nothing to permute *)
    assert (ps = []).
    { unfold zperm, perm in Eps. replace (Z.to_nat (alen rs)) with 0%nat in Eps by lia. cbn in Eps. congruence. }
    subst ps. rewrite firstn_nil in H. cbn in H. unfold ret in H. injection H as <- <-.
    split; [exact Hs|]. unfold zperm, perm in Eps. replace (Z.to_nat (alen rs)) with 0%nat in Eps by lia. cbn in Eps. congruence.
  - assert (HLpos : 0 < alen rs) by lia.
    destruct (zperm_range (alen rs) t0 ps t3 Ht0 HLpos Eps) as [Hps Ht3].
    set (sites := firstn (Z.to_nat (scale proplen (alen rs))) ps) in *.
    assert (Hsites : Forall (fun v => 0 <= v < alen rs) sites).
    { apply Forall_forall. intros v Hv. unfold sites in Hv. apply firstn_incl_in in Hv. rewrite Forall_forall in Hps. apply Hps. exact Hv. }
    revert H. apply (for_each_inv_t (fun s => rows_permuted rs s)); [|exact Hs | exact Ht3].
    intros s1 i t4 s2 r1 Hi Hs1 Ht4 H. unfold bind in H. destruct (intn (i + 1) t4) as [[j t5]|] eqn:Ej; [|discriminate].
    pose proof (in_zseq _ _ Hi) as Hir.
    pose proof (intn_range (i + 1) t4 j t5 ltac:(lia) Ht4 Ej) as Hjr. pose proof (intn_tail (i + 1) t4 j t5 Ht4 Ej) as Ht5.
    unfold ret in H. injection H as <- <-. split; [|exact Ht5].
    apply (rows_permuted_trans rs s1); [exact Hs1|].
    assert (Hrs1 : rect L s1) by (apply (rect_shape L rs); [exact (proj1 Hs1) | exact Hr]).
    assert (Hl1 : length s1 = length rs) by (apply shape_length; exact (proj1 Hs1)).
    assert (Hsite : forall q, 0 <= q < Z.of_nat (length sites) -> (Z.to_nat (nthZ sites q) < L)%nat).
    { intros q Hq. unfold nthZ. assert (Hin : In (nth (Z.to_nat q) sites 0) sites) by (apply nth_In; lia).
      rewrite Forall_forall in Hsites. specialize (Hsites _ Hin). lia. }
    apply (row_swap_permuted L); [exact Hrs1 | rewrite Hl1; pose proof (nthZ_range (nrows rs) p x Hn Hp); unfold nrows in *; lia
                                 | apply Hsite; lia | apply Hsite; lia].
Qed.
