From Coq Require Import List Bool NArith ZArith QArith Lia.
From Coq.Strings Require Import Byte.
Import ListNotations.
From GA.Base Require Import Bytes Align Tape.
From GA.Gen Require Import Alpha.
From GA.Model Require Import Random.

Local Open Scope Z_scope.

(* ---- Intn ------------------------------------------------------------------------------- *)
Lemma reject31_range mx n t v r : 0 < n -> reject31 mx n t = Some (v, r) -> 0 <= v < n.
Proof.
  intros Hn. induction t as [|x t IH]; cbn [reject31]; [discriminate|].
  destruct (Z.shiftr x 32 <=? mx); [|exact IH].
  intros H. assert (E1 : v = Z.shiftr x 32 mod n) by congruence. rewrite E1. apply Z.mod_pos_bound. exact Hn.
Qed.

Lemma reject63_range mx n t v r : 0 < n -> reject63 mx n t = Some (v, r) -> 0 <= v < n.
Proof.
  intros Hn. induction t as [|x t IH]; cbn [reject63]; [discriminate|].
  destruct (x <=? mx); [|exact IH].
  intros H. assert (E1 : v = x mod n) by congruence. rewrite E1. apply Z.mod_pos_bound. exact Hn.
Qed.

Lemma pow2_of_is_pow2 n : 0 < n -> Z.land n (n - 1) = 0 -> n = 2 ^ Z.log2 n.
Proof.
  intros Hn1 P. destruct (Z.log2_spec n Hn1) as [L1 L2].
  destruct (Z.eq_dec n (2 ^ Z.log2 n)) as [E|NE]; [exact E|]. exfalso.
  assert (T1 : Z.testbit n (Z.log2 n) = true) by (apply Z.bit_log2; lia).
  assert (T2 : Z.testbit (n - 1) (Z.log2 n) = true).
  { assert (2 ^ Z.log2 n <= n - 1 < 2 ^ Z.succ (Z.log2 n)) by lia.
    assert (Z.log2 (n - 1) = Z.log2 n) by (apply Z.log2_unique; [apply Z.log2_nonneg | lia]).
    rewrite <- H0. apply Z.bit_log2.
    pose proof (Z.pow_pos_nonneg 2 (Z.log2 n) ltac:(lia) (Z.log2_nonneg n)). lia. }
  assert (T3 : Z.testbit (Z.land n (n - 1)) (Z.log2 n) = true) by (rewrite Z.land_spec, T1, T2; reflexivity).
  rewrite P in T3. rewrite Z.bits_0 in T3. discriminate.
Qed.

Lemma land_mask_range v n : 0 <= v -> 0 < n -> Z.land n (n - 1) = 0 -> 0 <= Z.land v (n - 1) < n.
Proof.
  intros Hv Hn P. pose proof (pow2_of_is_pow2 n Hn P) as E.
  assert (M : n - 1 = Z.ones (Z.log2 n)) by (rewrite Z.ones_equiv; lia).
  rewrite M. rewrite Z.land_ones by apply Z.log2_nonneg.
  rewrite <- E. apply Z.mod_pos_bound. lia.
Qed.

Lemma land_mask_id k n : 0 <= k < n -> Z.land n (n - 1) = 0 -> Z.land k (n - 1) = k.
Proof.
  intros Hk P. assert (Hn : 0 < n) by lia. pose proof (pow2_of_is_pow2 n Hn P) as E.
  assert (M : n - 1 = Z.ones (Z.log2 n)) by (rewrite Z.ones_equiv; lia).
  rewrite M. rewrite Z.land_ones by apply Z.log2_nonneg.
  rewrite <- E. apply Z.mod_small. lia.
Qed.

(* every raw value is a non-negative Int63 *)
Definition tape_ok (t : tape) : Prop := Forall (fun v => 0 <= v) t.

Theorem intn_range n t v r : 0 < n -> tape_ok t -> intn n t = Some (v, r) -> 0 <= v < n.
Proof.
  intros Hn Ht. unfold intn. destruct (n <=? 2 ^ 31 - 1).
  - unfold int31n. destruct (is_pow2 n) eqn:P.
    + unfold int31, int63. destruct t as [|x t']; [discriminate|]. intros H.
      assert (E1 : v = Z.land (Z.shiftr x 32) (n - 1)) by congruence. rewrite E1.
      apply land_mask_range; [|exact Hn|apply Z.eqb_eq; exact P]. apply Z.shiftr_nonneg. inversion Ht; assumption.
    + apply reject31_range. exact Hn.
  - unfold int63n. destruct (is_pow2 n) eqn:P.
    + unfold int63. destruct t as [|x t']; [discriminate|]. intros H.
      assert (E1 : v = Z.land x (n - 1)) by congruence. rewrite E1.
      apply land_mask_range; [inversion Ht; assumption | exact Hn | apply Z.eqb_eq; exact P].
    + apply reject63_range. exact Hn.
Qed.

Lemma reject31_tail mx n t v r : tape_ok t -> reject31 mx n t = Some (v, r) -> tape_ok r.
Proof.
  induction t as [|x t IH]; cbn [reject31]; intros Ht; [discriminate|]. inversion Ht; subst.
  destruct (Z.shiftr x 32 <=? mx); [intros H; assert (E2 : r = t) by congruence; rewrite E2; assumption | apply IH; assumption].
Qed.
Lemma reject63_tail mx n t v r : tape_ok t -> reject63 mx n t = Some (v, r) -> tape_ok r.
Proof.
  induction t as [|x t IH]; cbn [reject63]; intros Ht; [discriminate|]. inversion Ht; subst.
  destruct (x <=? mx); [intros H; assert (E2 : r = t) by congruence; rewrite E2; assumption | apply IH; assumption].
Qed.

Lemma intn_tail n t v r : tape_ok t -> intn n t = Some (v, r) -> tape_ok r.
Proof.
  intros Ht. unfold intn, int31n, int63n, int31, int63.
  destruct (n <=? 2 ^ 31 - 1); destruct (is_pow2 n);
    try (destruct t as [|x t']; [discriminate|]; intros H; assert (E2 : r = t') by congruence; rewrite E2; inversion Ht; assumption).
  - apply reject31_tail. exact Ht.
  - apply reject63_tail. exact Ht.
Qed.

(* support: every value below n is produced by some raw value *)
Theorem intn_support n k t :
  0 <= k < n -> n <= 2 ^ 31 - 1 -> intn n (k * 2 ^ 32 :: t) = Some (k, t).
Proof.
  intros Hk Hn. unfold intn. destruct (Z.leb_spec n (2 ^ 31 - 1)); [|lia].
  assert (S : Z.shiftr (k * 2 ^ 32) 32 = k).
  { rewrite Z.shiftr_div_pow2 by lia. apply Z.div_mul. lia. }
  unfold int31n. destruct (is_pow2 n) eqn:P.
  - unfold int31, int63. rewrite S. f_equal. f_equal.
    unfold is_pow2 in P. apply Z.eqb_eq in P. apply land_mask_id; assumption.
  - cbn [reject31]. rewrite S.
    assert (M : k <= 2 ^ 31 - 1 - 2 ^ 31 mod n).
    { pose proof (Z.div_mod (2 ^ 31) n ltac:(lia)) as D.
      assert (1 <= 2 ^ 31 / n) by (apply Z.div_le_lower_bound; lia). nia. }
    destruct (Z.leb_spec k (2 ^ 31 - 1 - 2 ^ 31 mod n)); [|lia].
    rewrite Z.mod_small by lia. reflexivity.
Qed.

(* ---- index draws --------------------------------------------------------------------------------- *)
Lemma draw_n_spec k n : forall t idx r, 0 < n -> tape_ok t ->
  draw_n k n t = Some (idx, r) -> length idx = k /\ Forall (fun v => 0 <= v < n) idx /\ tape_ok r.
Proof.
  induction k as [|k IH]; intros t idx r Hn Ht; simpl.
  - unfold ret. intros H. inversion H; subst. auto.
  - unfold bind. destruct (intn n t) as [[v t1]|] eqn:E; [|discriminate].
    destruct (draw_n k n t1) as [[vs t2]|] eqn:E2; [|discriminate].
    unfold ret. intros H. inversion H; subst.
    pose proof (intn_range n t v t1 Hn Ht E) as Hv. pose proof (intn_tail n t v t1 Ht E) as Ht1.
    destruct (IH t1 vs r Hn Ht1 E2) as [H1 [H2 H3]]. simpl. auto.
Qed.

(* BuildBootstrap: one index list of length floor(frac*L), every index a valid
   column, and every row is read through that same list (columns are taken for
   all rows at once); names and row order kept *)
Theorem bootstrap_spec frac rs t idx out r :
  0 < alen rs -> tape_ok t ->
  build_bootstrap frac rs t = Some ((idx, out), r) ->
  Z.of_nat (length idx) = Z.max 0 (scale (norm_frac frac) (alen rs)) /\
  Forall (fun v => 0 <= v < alen rs) idx /\
  out = map (fun row => (fst row, map (fun j => nth (Z.to_nat j) (snd row) x00) idx)) rs.
Proof.
  intros HL Ht. unfold build_bootstrap, bind.
  destruct (draw_n (Z.to_nat (scale (norm_frac frac) (alen rs))) (alen rs) t) as [[ix t1]|] eqn:E; [|discriminate].
  unfold ret. intros H. inversion H; subst.
  destruct (draw_n_spec _ _ _ _ _ HL Ht E) as [H1 [H2 _]]. split; [rewrite H1; lia|]. split; [exact H2 | reflexivity].
Qed.

Lemma draw_n_zero_tape m N : 0 < N <= 2 ^ 31 - 1 ->
  exists idx, draw_n m N (repeat 0 m) = Some (idx, []).
Proof.
  intros HN. induction m as [|m [idx IH]]; [exists []; reflexivity|].
  exists (0 :: idx). cbn [draw_n repeat]. unfold bind.
  replace 0 with (0 * 2 ^ 32) at 1 by reflexivity. rewrite intn_support by lia. rewrite IH. reflexivity.
Qed.

(* support: any given column can be the first bootstrapped column *)
Theorem bootstrap_support rs k m :
  0 <= k < alen rs -> alen rs <= 2 ^ 31 - 1 ->
  exists t idx, draw_n (S m) (alen rs) t = Some (k :: idx, []).
Proof.
  intros Hk HL. destruct (draw_n_zero_tape m (alen rs) ltac:(lia)) as [idx E].
  exists (k * 2 ^ 32 :: repeat 0 m), idx. cbn [draw_n]. unfold bind.
  rewrite intn_support by lia. rewrite E. reflexivity.
Qed.

(* RandSubAlign, consecutive mode: the result is a window of the requested
   length starting inside [0, L-len], and every such offset - including the
   last - is reachable *)
Theorem window_spec len rs t out r :
  tape_ok t -> rand_sub_align len true rs t = Some (Some out, r) ->
  0 < len <= alen rs /\
  exists start, 0 <= start <= alen rs - len /\
    out = map (fun row => (fst row, firstn (Z.to_nat len) (skipn (Z.to_nat start) (snd row)))) rs.
Proof.
  intros Ht. unfold rand_sub_align.
  destruct (Z.ltb_spec (alen rs) len); simpl; [unfold ret; discriminate|].
  destruct (Z.leb_spec len 0); simpl; [unfold ret; discriminate|].
  unfold bind. destruct (intn (alen rs - len + 1) t) as [[s t1]|] eqn:E; [|discriminate].
  unfold ret. intros H'. inversion H'; subst. split; [lia|].
  assert (Hp : 0 < alen rs - len + 1) by lia.
  pose proof (intn_range _ _ _ _ Hp Ht E). exists s. split; [lia | reflexivity].
Qed.

Theorem window_support len rs o :
  0 < len <= alen rs -> alen rs <= 2 ^ 31 - 2 -> 0 <= o <= alen rs - len ->
  rand_sub_align len true rs [o * 2 ^ 32] =
    Some (Some (map (fun row => (fst row, firstn (Z.to_nat len) (skipn (Z.to_nat o) (snd row)))) rs), []).
Proof.
  intros Hl HL Ho. unfold rand_sub_align.
  destruct (Z.ltb_spec (alen rs) len); [lia|]. destruct (Z.leb_spec len 0); [lia|]. simpl.
  unfold bind. rewrite intn_support by lia. reflexivity.
Qed.

(* replay: the result is a function of the tape *)
Theorem replay_deterministic {A} (op : tape -> option (A * tape)) t1 t2 : t1 = t2 -> op t1 = op t2.
Proof. intros ->. reflexivity. Qed.

(* ---- ShuffleSequences only re-orders the rows, whatever the tape --------------------------------------- *)
From Coq Require Import Permutation.
From GA.Proofs Require ContainerProofs.

Lemma nth_set_nth {A} (l : list A) (k : nat) (x d : A) (m : nat) :
  nth m (set_nth k x l) d = if Nat.eqb m k then (if Nat.ltb k (length l) then x else nth m l d) else nth m l d.
Proof.
  revert k m; induction l as [|h t IH]; intros k m.
  - destruct k, m; cbn; try reflexivity; destruct (Nat.eqb m k); reflexivity.
  - destruct k as [|k]; destruct m as [|m]; cbn [set_nth nth Nat.eqb length]; try reflexivity.
    rewrite IH. destruct (Nat.eqb m k); [|reflexivity].
    destruct (Nat.ltb_spec k (length t)), (Nat.ltb_spec (S k) (S (length t))); try reflexivity; lia.
Qed.

Lemma set_nth_length {A} (l : list A) k x : length (set_nth k x l) = length l.
Proof. revert k; induction l as [|h t IH]; intros k; [destruct k; reflexivity|]. destruct k; cbn; [reflexivity | rewrite IH; reflexivity]. Qed.

Lemma swap_rows_perm (rs : rows) (i j : Z) :
  0 <= i < Z.of_nat (length rs) -> 0 <= j < Z.of_nat (length rs) -> Permutation (swap_rows rs i j) rs.
Proof.
  intros Hi Hj. unfold swap_rows.
  set (d := (@nil byte, @nil byte)). set (a := nth (Z.to_nat i) rs d). set (b := nth (Z.to_nat j) rs d).
  set (ni := Z.to_nat i). set (nj := Z.to_nat j).
  assert (Hni : (ni < length rs)%nat) by (unfold ni; lia). assert (Hnj : (nj < length rs)%nat) by (unfold nj; lia).
  rewrite (ContainerProofs.list_as_nth (set_nth nj a (set_nth ni b rs)) d).
  rewrite !set_nth_length.
  rewrite (map_ext_in _ (fun k => nth (ContainerProofs.transp ni nj k) rs d)).
  - apply perm_trans with (map (fun k => nth k rs d) (seq 0 (length rs)));
      [| rewrite <- ContainerProofs.list_as_nth; apply Permutation_refl].
    rewrite <- (map_map (ContainerProofs.transp ni nj) (fun k => nth k rs d)).
    apply Permutation_map. apply ContainerProofs.transp_perm; assumption.
  - intros k Hk. apply in_seq in Hk. rewrite !nth_set_nth, set_nth_length.
    unfold ContainerProofs.transp.
    destruct (Nat.ltb_spec nj (length rs)); [|lia]. destruct (Nat.ltb_spec ni (length rs)); [|lia].
    destruct (Nat.eqb_spec k nj) as [->|Hkj].
    + (* position j receives the old row i *)
      destruct (Nat.eqb_spec nj ni) as [E|E]; [rewrite E; reflexivity | reflexivity].
    + destruct (Nat.eqb_spec k ni) as [->|Hki]; reflexivity.
Qed.

Lemma fy_loop_rows_perm fuel : forall n (rs : rows) t out r,
  tape_ok t -> n <= Z.of_nat (length rs) ->
  fy_loop fuel n swap_rows rs t = Some (out, r) -> Permutation out rs.
Proof.
  induction fuel as [|f IH]; intros n rs t out r Ht Hn H; cbn [fy_loop] in H.
  - unfold ret in H. injection H as <- _. apply Permutation_refl.
  - destruct (Z.leb_spec n 1) as [Hle|Hgt].
    + unfold ret in H. injection H as <- _. apply Permutation_refl.
    + unfold bind in H. destruct (intn n t) as [[v t1]|] eqn:E; [|discriminate].
      pose proof (intn_range n t v t1 ltac:(lia) Ht E) as Hv.
      pose proof (intn_tail n t v t1 Ht E) as Ht1.
      assert (Hp : Permutation (swap_rows rs (n - 1) v) rs) by (apply swap_rows_perm; lia).
      eapply perm_trans; [|exact Hp].
      apply (IH (n - 1) (swap_rows rs (n - 1) v) t1 out r Ht1); [|exact H].
      rewrite (Permutation_length Hp). lia.
Qed.

Theorem shuffle_is_row_permutation rs t out r :
  tape_ok t -> shuffle_sequences rs t = Some (out, r) -> Permutation out rs.
Proof.
  intros Ht H. unfold shuffle_sequences in H.
  eapply fy_loop_rows_perm; [exact Ht | | exact H]. unfold nrows. lia.
Qed.
