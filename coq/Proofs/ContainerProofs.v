From Coq Require Import List Bool NArith ZArith Lia Permutation.
From Coq.Strings Require Import Byte.
Import ListNotations.
From GA.Base Require Import Bytes Case Align Dec Sort.
From GA.Gen Require Import Alpha.
From GA.Model Require Import Container.

(* ---- association-list index ---------------------------------------------------------------- *)
Lemma lassoc_app_none {A} n (l1 l2 : list (list byte * A)) :
  lassoc n l1 = None -> lassoc n (l1 ++ l2) = lassoc n l2.
Proof.
  induction l1 as [|[k v] t IH]; simpl; [reflexivity|].
  destruct (bytes_eqb n k); [discriminate | exact IH].
Qed.

Lemma lassoc_app_some {A} n (l1 l2 : list (list byte * A)) v :
  lassoc n l1 = Some v -> lassoc n (l1 ++ l2) = Some v.
Proof.
  induction l1 as [|[k w] t IH]; simpl; [discriminate|].
  destruct (bytes_eqb n k); [auto | exact IH].
Qed.

Lemma bytes_eqb_sym a b : bytes_eqb a b = bytes_eqb b a.
Proof.
  destruct (bytes_eqb a b) eqn:E.
  - apply bytes_eqb_eq in E. subst. symmetry. apply bytes_eqb_refl.
  - destruct (bytes_eqb b a) eqn:E'; [|reflexivity]. apply bytes_eqb_eq in E'. subst.
    rewrite bytes_eqb_refl in E. discriminate.
Qed.

Lemma idx_set_lookup n id index m :
  idx_lookup m (idx_set n id index) = if bytes_eqb m n then Some id else idx_lookup m index.
Proof.
  unfold idx_lookup. induction index as [|[k v] t IH]; simpl.
  - destruct (bytes_eqb m n); reflexivity.
  - destruct (bytes_eqb n k) eqn:E; simpl.
    + apply bytes_eqb_eq in E. subst k. destruct (bytes_eqb m n); reflexivity.
    + destruct (bytes_eqb m k) eqn:E2.
      * apply bytes_eqb_eq in E2. subst k. rewrite bytes_eqb_sym, E. reflexivity.
      * exact IH.
Qed.

(* ---- first object carrying a name ---------------------------------------------------------- *)
Fixpoint first_obj (n : list byte) (objs : list obj) : option obj :=
  match objs with
  | [] => None
  | o :: t => if bytes_eqb (oname o) n then Some o else first_obj n t
  end.

Lemma first_obj_some n objs o : first_obj n objs = Some o -> In o objs /\ oname o = n.
Proof.
  induction objs as [|x t IH]; simpl; [discriminate|].
  destruct (bytes_eqb (oname x) n) eqn:E.
  - intros H. inversion H; subst. apply bytes_eqb_eq in E. auto.
  - intros H. apply IH in H as [H1 H2]. auto.
Qed.

Lemma first_obj_none n objs : first_obj n objs = None -> forall o, In o objs -> oname o <> n.
Proof.
  induction objs as [|x t IH]; simpl; intros H o Hin; [contradiction|].
  destruct (bytes_eqb (oname x) n) eqn:E; [discriminate|].
  destruct Hin as [<-|Hin]; [intros Hn; apply bytes_eqb_eq in Hn; congruence | apply IH; assumption].
Qed.

Lemma first_obj_app n l1 l2 :
  first_obj n (l1 ++ l2) = match first_obj n l1 with Some o => Some o | None => first_obj n l2 end.
Proof. induction l1 as [|x t IH]; simpl; [reflexivity|]. destruct (bytes_eqb (oname x) n); auto. Qed.

(* reindex: the first object of each name *)
Lemma reindex_from_spec objs : forall index n,
  idx_lookup n (reindex_from objs index) =
    match idx_lookup n index with
    | Some id => Some id
    | None => option_map oid (first_obj n objs)
    end.
Proof.
  induction objs as [|o t IH]; intros index n; simpl.
  - destruct (idx_lookup n index); reflexivity.
  - unfold idx_lookup in *. destruct (lassoc (oname o) index) eqn:E.
    + rewrite IH. destruct (lassoc n index) eqn:E2; [reflexivity|].
      destruct (bytes_eqb (oname o) n) eqn:E3; [|reflexivity].
      apply bytes_eqb_eq in E3. subst n. congruence.
    + rewrite IH. destruct (lassoc n index) eqn:E2.
      * rewrite (lassoc_app_some _ _ _ _ E2). reflexivity.
      * rewrite (lassoc_app_none _ _ _ E2). simpl. rewrite bytes_eqb_sym.
        destruct (bytes_eqb (oname o) n); reflexivity.
Qed.

Lemma reindex_spec objs n : idx_lookup n (reindex objs) = option_map oid (first_obj n objs).
Proof. unfold reindex. rewrite reindex_from_spec. reflexivity. Qed.

(* ---- the invariant ----------------------------------------------------------------------------- *)
Definition index_ok (objs : list obj) (index : list (list byte * nat)) : Prop :=
  (forall n id, idx_lookup n index = Some id -> exists o, In o objs /\ oid o = id /\ oname o = n) /\
  (forall n, idx_lookup n index = None -> forall o, In o objs -> oname o <> n).

Definition ids_ok (st : cstate) : Prop :=
  NoDup (map oid (c_objs st)) /\ (forall o, In o (c_objs st) -> oid o < c_next st).

Definition rect_ok (st : cstate) : Prop :=
  c_kind st = true -> forall o, In o (c_objs st) -> Z.of_nat (length (oseq o)) = c_len st.

Definition Inv (st : cstate) : Prop := index_ok (c_objs st) (c_index st) /\ ids_ok st /\ rect_ok st.

Lemma Inv_empty kind alpha : Inv (empty_state kind alpha).
Proof.
  unfold Inv, index_ok, ids_ok, rect_ok, empty_state. simpl. repeat split; try discriminate; try constructor;
    intros; contradiction.
Qed.

Lemma reindex_index_ok objs : index_ok objs (reindex objs).
Proof.
  split.
  - intros n id H. rewrite reindex_spec in H. destruct (first_obj n objs) as [o|] eqn:E; [|discriminate].
    inversion H; subst. apply first_obj_some in E as [H1 H2]. eauto.
  - intros n H. rewrite reindex_spec in H. destruct (first_obj n objs) eqn:E; [discriminate|].
    apply first_obj_none. exact E.
Qed.

(* ---- lookups through the index agree with the list ------------------------------------------------ *)
Lemma obj_by_id_in id objs o : NoDup (map oid objs) -> In o objs -> oid o = id -> obj_by_id id objs = Some o.
Proof.
  induction objs as [|x t IH]; intros Hnd Hin Hid; [contradiction|]. simpl.
  inversion Hnd as [|? ? Hx Hnd']; subst.
  destruct Hin as [->|Hin].
  - rewrite Nat.eqb_refl. reflexivity.
  - destruct (Nat.eqb_spec (oid x) (oid o)) as [E|E].
    + exfalso. apply Hx. rewrite E. apply in_map. exact Hin.
    + apply IH; auto.
Qed.

Lemma first_obj_lassoc n objs :
  option_map oseq (first_obj n objs) = lassoc n (map snd objs).
Proof.
  induction objs as [|[id [nm sq]] t IH]; simpl; [reflexivity|].
  unfold oname at 1. simpl. rewrite bytes_eqb_sym. destruct (bytes_eqb n nm); [reflexivity | exact IH].
Qed.

(* lookup by name = the first row carrying the name, when names are pairwise distinct *)
Lemma nodup_names_unique objs o1 o2 :
  NoDup (map oname objs) -> In o1 objs -> In o2 objs -> oname o1 = oname o2 -> o1 = o2.
Proof.
  induction objs as [|x t IH]; intros Hnd H1 H2 E; [contradiction|].
  inversion Hnd as [|? ? Hx Hnd']; subst.
  destruct H1 as [->|H1], H2 as [->|H2]; auto.
  - exfalso. apply Hx. rewrite E. apply in_map. exact H2.
  - exfalso. apply Hx. rewrite <- E. apply in_map. exact H1.
Qed.

Theorem access_paths_agree st n :
  Inv st -> NoDup (map oname (c_objs st)) ->
  get_by_name st n = lassoc n (abs st).
Proof.
  intros [[Hs Hn] [[Hnd _] _]] Hnames. unfold get_by_name, abs.
  rewrite <- first_obj_lassoc.
  destruct (idx_lookup n (c_index st)) as [id|] eqn:E.
  - destruct (Hs n id E) as [o [Hin [Hid Hnm]]].
    rewrite (obj_by_id_in id (c_objs st) o Hnd Hin Hid).
    destruct (first_obj n (c_objs st)) as [o'|] eqn:F.
    + apply first_obj_some in F as [Hin' Hnm']. simpl.
      rewrite (nodup_names_unique _ o o' Hnames Hin Hin'); [reflexivity | congruence].
    + exfalso. apply (first_obj_none n _ F o Hin Hnm).
  - destruct (first_obj n (c_objs st)) as [o'|] eqn:F; [|reflexivity].
    apply first_obj_some in F as [Hin' Hnm']. exfalso. apply (Hn n E o' Hin' Hnm').
Qed.

Lemma id_by_name_from_spec n objs k :
  id_by_name_from n objs k = match first_obj n objs with None => (-1)%Z | Some _ => id_by_name_from n objs k end.
Proof. destruct (first_obj n objs) eqn:E; [reflexivity|]. revert k. induction objs as [|x t IH]; intros k; simpl in *; [reflexivity|]. destruct (bytes_eqb (oname x) n); [discriminate | apply IH; exact E]. Qed.

(* both access paths find a name or both do not *)
Theorem access_paths_same_domain st n :
  Inv st -> (get_by_name st n = None <-> id_by_name st n = (-1)%Z).
Proof.
  intros [[Hs Hn] [[Hnd _] _]]. unfold get_by_name, id_by_name.
  assert (P : forall objs k, (0 <= k)%Z -> (id_by_name_from n objs k = (-1)%Z <-> first_obj n objs = None)).
  { induction objs as [|x t IH]; intros k Hk; simpl; [tauto|].
    destruct (bytes_eqb (oname x) n); [split; [lia | discriminate] | apply IH; lia]. }
  rewrite (P _ 0%Z) by lia.
  destruct (idx_lookup n (c_index st)) as [id|] eqn:E.
  - destruct (Hs n id E) as [o [Hin [Hid Hnm]]]. rewrite (obj_by_id_in id _ o Hnd Hin Hid).
    split; [discriminate|]. intros F. exfalso. apply (first_obj_none n _ F o Hin Hnm).
  - split; [intros _ | reflexivity]. destruct (first_obj n (c_objs st)) as [o'|] eqn:F; [|reflexivity].
    apply first_obj_some in F as [Hin' Hnm']. exfalso. apply (Hn n E o' Hin' Hnm').
Qed.

(* ---- preservation: insertion ------------------------------------------------------------------------ *)
Lemma add_seq_inv as_align st n s st' :
  Inv st -> (as_align = true -> c_kind st = true) -> (as_align = false -> c_kind st = false) ->
  add_seq as_align st n s = Added st' ->
  Inv st' /\ exists nm, abs st' = abs st ++ [(nm, s)] /\ c_kind st' = c_kind st /\ c_policy st' = c_policy st.
Proof.
  intros [[Hs Hn] [[Hnd Hlt] Hrect]] Hk1 Hk2. unfold add_seq.
  set (look := idx_lookup n (c_index st)).
  assert (G : forall tmp,
    idx_lookup tmp (c_index st) = None ->
    (as_align && negb (Z.eqb (c_len st) (-1)) && negb (Z.eqb (c_len st) (Z.of_nat (length s)))) = false ->
    let st1 := mkst (c_kind st) (c_policy st) (c_alpha st)
                    (if as_align then Z.of_nat (length s) else c_len st) (S (c_next st))
                    (c_objs st ++ [(c_next st, (tmp, s))]) (idx_set tmp (c_next st) (c_index st)) in
    Inv st1 /\ exists nm, abs st1 = abs st ++ [(nm, s)] /\ c_kind st1 = c_kind st /\ c_policy st1 = c_policy st).
  { intros tmp Hnone Hchk st1. split.
    - split; [|split].
      + split.
        * intros m id Hm. subst st1. cbn [c_index c_objs] in *. rewrite idx_set_lookup in Hm.
          destruct (bytes_eqb m tmp) eqn:E.
          -- inversion Hm; subst. apply bytes_eqb_eq in E. subst m.
             exists (c_next st, (tmp, s)). split; [apply in_or_app; right; left; reflexivity | auto].
          -- destruct (Hs m id Hm) as [o [Hin [Hid Hnm]]]. exists o. split; [apply in_or_app; left; exact Hin | auto].
        * intros m Hm o Hin. subst st1. cbn [c_index c_objs] in *. rewrite idx_set_lookup in Hm.
          destruct (bytes_eqb m tmp) eqn:E; [discriminate|].
          apply in_app_or in Hin as [Hin|[<-|[]]]; [apply (Hn m Hm o Hin)|].
          unfold oname. simpl. intros ->. rewrite bytes_eqb_refl in E. discriminate.
      + split.
        * subst st1. cbn [c_objs]. rewrite map_app. simpl.
          eapply Permutation_NoDup; [apply Permutation_cons_append|]. constructor; [|exact Hnd].
          intros Hin. apply in_map_iff in Hin as [o [Hid Hin]]. specialize (Hlt o Hin). unfold oid in *. lia.
        * intros o Hin. subst st1. cbn [c_objs c_next] in *. apply in_app_or in Hin as [Hin|[<-|[]]].
          -- specialize (Hlt o Hin). lia.
          -- unfold oid. simpl. lia.
      + intros Hkind o Hin. subst st1. cbn [c_kind c_objs c_len] in *.
        destruct as_align eqn:Ea.
        * apply in_app_or in Hin as [Hin|[<-|[]]]; [|reflexivity].
          specialize (Hrect Hkind o Hin). simpl in Hchk.
          destruct (Z.eqb_spec (c_len st) (-1)) as [E1|E1]; [lia|]. simpl in Hchk.
          destruct (Z.eqb_spec (c_len st) (Z.of_nat (length s))) as [E2|E2]; [lia | discriminate].
        * rewrite (Hk2 eq_refl) in Hkind. discriminate.
    - exists tmp. subst st1. unfold abs. cbn [c_objs c_kind c_policy]. rewrite map_app. auto. }
  destruct (match look with
            | Some id => match obj_by_id id (c_objs st) with Some o => Some (oseq o) | None => Some [] end
            | None => None end) as [ex|] eqn:Eex.
  - destruct (Z.eqb (c_policy st) IGNORE_NAME); [discriminate|].
    destruct (Z.eqb (c_policy st) IGNORE_SEQUENCE && bytes_eqb ex s); [discriminate|].
    destruct (rename_loop (S (length (c_index st))) n (c_index st) 0) as [tmp|] eqn:Er; [|discriminate].
    assert (Hnone : idx_lookup tmp (c_index st) = None).
    { revert Er. generalize 0 as i. generalize (S (length (c_index st))) as fuel.
      induction fuel as [|f IH]; intros i Er; simpl in Er; [discriminate|].
      destruct (idx_lookup (name_idx n (S i)) (c_index st)) eqn:El; [apply (IH (S i)); exact Er|].
      inversion Er; subst. exact El. }
    destruct (as_align && negb (Z.eqb (c_len st) (-1)) && negb (Z.eqb (c_len st) (Z.of_nat (length s)))) eqn:Ec; [discriminate|].
    intros H. inversion H; subst. apply G; [exact Hnone | reflexivity].
  - assert (Hnone : idx_lookup n (c_index st) = None).
    { unfold look in Eex. destruct (idx_lookup n (c_index st)); [destruct (obj_by_id n0 (c_objs st)); discriminate | reflexivity]. }
    destruct (as_align && negb (Z.eqb (c_len st) (-1)) && negb (Z.eqb (c_len st) (Z.of_nat (length s)))) eqn:Ec; [discriminate|].
    intros H. inversion H; subst. apply G; [exact Hnone | reflexivity].
Qed.

(* a sequence of the wrong length is rejected and leaves the alignment unchanged *)
Theorem bad_length_rejected st n s :
  c_kind st = true -> c_objs st <> [] -> Inv st ->
  Z.of_nat (length s) <> c_len st ->
  (c_policy st = IGNORE_NONE \/ idx_lookup n (c_index st) = None) ->
  step st (OpAdd n s) = (st, false).
Proof.
  intros Hk Hne [_ [_ Hrect]] Hlen Hpol. unfold step. rewrite Hk. unfold add_seq.
  assert (Hl : c_len st <> (-1)%Z).
  { destruct (c_objs st) as [|o t] eqn:E; [contradiction|].
    assert (Hin : In o (c_objs st)) by (rewrite E; left; reflexivity). specialize (Hrect Hk o Hin). lia. }
  assert (Hchk : (negb (Z.eqb (c_len st) (-1)) && negb (Z.eqb (c_len st) (Z.of_nat (length s)))) = true).
  { destruct (Z.eqb_spec (c_len st) (-1)); [contradiction|]. destruct (Z.eqb_spec (c_len st) (Z.of_nat (length s))); [lia | reflexivity]. }
  cbn [andb]. destruct (idx_lookup n (c_index st)) as [id|] eqn:El.
  - destruct Hpol as [Hpol|Hpol]; [|discriminate]. rewrite Hpol.
    replace (Z.eqb IGNORE_NONE IGNORE_NAME) with false by reflexivity.
    replace (Z.eqb IGNORE_NONE IGNORE_SEQUENCE) with false by reflexivity. cbn [andb].
    destruct (obj_by_id id (c_objs st)); destruct (rename_loop _ _ _ _); try reflexivity; rewrite Hchk; reflexivity.
  - rewrite Hchk. reflexivity.
Qed.

(* ---- preservation: name edits -------------------------------------------------------------------------- *)
Lemma rename_with_inv st f : Inv st -> Inv (rename_with st f) /\ map oseq (c_objs (rename_with st f)) = map oseq (c_objs st).
Proof.
  intros [_ [[Hnd Hlt] Hrect]]. unfold rename_with, set_objs, rename_objs. split.
  - split; [apply reindex_index_ok|]. split.
    + split; cbn [c_objs c_next].
      * rewrite map_map. unfold oid at 1. simpl. exact Hnd.
      * intros o Hin. apply in_map_iff in Hin as [o' [<- Hin]]. unfold oid. simpl. apply (Hlt o' Hin).
    + intros Hk o Hin. cbn [c_objs c_kind c_len] in *. apply in_map_iff in Hin as [o' [<- Hin]].
      unfold oseq at 1. simpl. apply (Hrect Hk o' Hin).
  - cbn [c_objs]. rewrite map_map. reflexivity.
Qed.

(* ---- preservation: re-ordering ---------------------------------------------------------------------------- *)
Lemma sort_objs_perm l : Permutation (sort_objs l) l.
Proof.
  unfold sort_objs. induction l as [|o t IH]; [constructor|]. cbn [fold_right].
  set (acc := fold_right _ [] t) in *.
  assert (G : forall a, Permutation
            ((fix ins (l : list obj) : list obj :=
                match l with
                | [] => [o]
                | y :: t0 => if lex_leb (oname o) (oname y) then o :: y :: t0 else y :: ins t0
                end) a) (o :: a)).
  { induction a as [|y t' IHa]; [apply Permutation_refl|].
    destruct (lex_leb (oname o) (oname y)); [apply Permutation_refl|].
    eapply perm_trans; [apply perm_skip; exact IHa | apply perm_swap]. }
  eapply perm_trans; [apply G | apply perm_skip; exact IH].
Qed.

Lemma reorder_inv st objs' :
  Inv st -> Permutation objs' (c_objs st) -> Inv (set_objs st objs' (c_index st)).
Proof.
  intros [[Hs Hn] [[Hnd Hlt] Hrect]] Hp. unfold set_objs. split; [|split].
  - split; cbn [c_objs c_index].
    + intros n id H. destruct (Hs n id H) as [o [Hin Ho]]. exists o. split; [|exact Ho].
      eapply Permutation_in; [apply Permutation_sym; exact Hp | exact Hin].
    + intros n H o Hin. apply (Hn n H o). eapply Permutation_in; [exact Hp | exact Hin].
  - split; cbn [c_objs c_next].
    + eapply Permutation_NoDup; [apply Permutation_sym, Permutation_map; exact Hp | exact Hnd].
    + intros o Hin. apply Hlt. eapply Permutation_in; [exact Hp | exact Hin].
  - intros Hk o Hin. cbn [c_objs c_kind c_len] in *. apply (Hrect Hk). eapply Permutation_in; [exact Hp | exact Hin].
Qed.

(* ---- the covered operations ----------------------------------------------------------------------------------- *)
(* ---- preservation: Fisher-Yates swaps ------------------------------------------------------------------ *)
Definition transp (i j k : nat) : nat := if Nat.eqb k i then j else if Nat.eqb k j then i else k.

Lemma transp_invol i j k : transp i j (transp i j k) = k.
Proof.
  unfold transp. destruct (Nat.eqb_spec k i) as [->|Hi].
  - destruct (Nat.eqb_spec j i) as [->|Hji]; [reflexivity|]. rewrite Nat.eqb_refl. reflexivity.
  - destruct (Nat.eqb_spec k j) as [->|Hj].
    + rewrite Nat.eqb_refl. reflexivity.
    + destruct (Nat.eqb_spec k i); [contradiction|]. destruct (Nat.eqb_spec k j); [contradiction|]. reflexivity.
Qed.

Lemma transp_perm i j n : i < n -> j < n -> Permutation (map (transp i j) (seq 0 n)) (seq 0 n).
Proof.
  intros Hi Hj. apply NoDup_Permutation.
  - apply FinFun.Injective_map_NoDup; [|apply seq_NoDup].
    intros a b H. rewrite <- (transp_invol i j a), <- (transp_invol i j b), H. reflexivity.
  - apply seq_NoDup.
  - intros x. rewrite in_map_iff. split.
    + intros [k [<- Hk]]. apply in_seq in Hk. apply in_seq. unfold transp.
      destruct (Nat.eqb k i); [lia|]. destruct (Nat.eqb k j); lia.
    + intros Hx. exists (transp i j x). split; [apply transp_invol|].
      apply in_seq in Hx. apply in_seq. unfold transp. destruct (Nat.eqb x i); [lia|]. destruct (Nat.eqb x j); lia.
Qed.

Lemma combine_seq_nth {A} (l : list A) (d : A) a :
  combine (seq a (length l)) l = map (fun k => (k, nth (k - a) l d)) (seq a (length l)).
Proof.
  revert a; induction l as [|x t IH]; intros a; [reflexivity|]. cbn [length seq combine map].
  rewrite Nat.sub_diag. cbn [nth]. f_equal. rewrite IH. apply map_ext_in. intros k Hk. apply in_seq in Hk.
  replace (k - a) with (S (k - S a)) by lia. reflexivity.
Qed.

Lemma list_as_nth {A} (l : list A) (d : A) : l = map (fun k => nth k l d) (seq 0 (length l)).
Proof.
  induction l as [|x t IH]; [reflexivity|]. cbn [length seq map nth]. f_equal.
  rewrite <- seq_shift, map_map. exact IH.
Qed.

Lemma swap_nth_perm i j l : Permutation (swap_nth i j l) l.
Proof.
  unfold swap_nth. destruct (nth_error l i) as [a|] eqn:Ea; [|apply Permutation_refl].
  destruct (nth_error l j) as [b|] eqn:Eb; [|apply Permutation_refl].
  assert (Hi : i < length l) by (apply nth_error_Some; congruence).
  assert (Hj : j < length l) by (apply nth_error_Some; congruence).
  set (d := a).
  rewrite (combine_seq_nth l d 0), map_map.
  rewrite (map_ext_in _ (fun k => nth (transp i j k) l d)).
  - apply perm_trans with (map (fun k => nth k l d) (seq 0 (length l)));
      [| rewrite <- list_as_nth; apply Permutation_refl].
    rewrite <- (map_map (transp i j) (fun k => nth k l d)).
    apply Permutation_map. apply transp_perm; assumption.
  - intros k Hk. cbn [fst snd]. rewrite Nat.sub_0_r. unfold transp.
    destruct (Nat.eqb k i); [symmetry; apply nth_error_nth; exact Eb|].
    destruct (Nat.eqb k j); [symmetry; apply nth_error_nth; exact Ea | reflexivity].
Qed.

Lemma shuffle_objs_perm draws : forall n l, Permutation (shuffle_objs draws n l) l.
Proof.
  induction draws as [|r t IH]; intros n l; [destruct n; apply Permutation_refl|].
  destruct n as [|n']; [apply Permutation_refl|]. cbn [shuffle_objs].
  eapply perm_trans; [apply IH | apply swap_nth_perm].
Qed.

(* ---- preservation: new names for the same rows (TrimNames, TrimNamesAuto) -------------------------------- *)
Lemma set_names_in objs : forall nn o', In o' (set_names objs nn) ->
  exists o, In o objs /\ oid o' = oid o /\ oseq o' = oseq o.
Proof.
  unfold set_names. induction objs as [|o t IH]; intros nn o' H; [destruct nn; contradiction|].
  destruct nn as [|n nn']; [contradiction|]. cbn [combine map] in H. destruct H as [<-|H].
  - exists o. split; [left; reflexivity | split; reflexivity].
  - destruct (IH nn' o' H) as [x [Hx E]]. exists x. split; [right; exact Hx | exact E].
Qed.

Lemma set_names_ids objs : forall nn, NoDup (map oid objs) -> NoDup (map oid (set_names objs nn)).
Proof.
  induction objs as [|o t IH]; intros nn H; [destruct nn; constructor|].
  destruct nn as [|n nn']; [constructor|]. unfold set_names. cbn [combine map]. inversion H as [|? ? Hn Ht]; subst.
  constructor; [|apply IH; exact Ht].
  intros Hin. apply Hn. apply in_map_iff in Hin as [o' [E Ho']].
  destruct (set_names_in t nn' o' Ho') as [x [Hx [Eid _]]]. apply in_map_iff. exists x. split; [|exact Hx].
  rewrite <- Eid. exact E.
Qed.

Lemma set_names_inv st nn : Inv st -> Inv (set_objs st (set_names (c_objs st) nn) (reindex (set_names (c_objs st) nn))).
Proof.
  intros [_ [[Hnd Hlt] Hrect]]. unfold set_objs. split; [apply reindex_index_ok|]. split.
  - split; cbn [c_objs c_next]; [apply set_names_ids; exact Hnd|].
    intros o' Ho'. destruct (set_names_in _ _ _ Ho') as [o [Ho [E _]]]. rewrite E. apply Hlt. exact Ho.
  - intros Hk o' Ho'. cbn [c_objs c_kind c_len] in *. destruct (set_names_in _ _ _ Ho') as [o [Ho [_ E]]].
    rewrite E. apply (Hrect Hk o Ho).
Qed.

(* ---- preservation: SetSequenceChar ------------------------------------------------------------------------ *)
Lemma set_nth_b_length j c s : length (set_nth_b j c s) = length s.
Proof. revert j; induction s as [|b t IH]; intros j; [destruct j; reflexivity|]. destruct j; cbn; [reflexivity | rewrite IH; reflexivity]. Qed.

Lemma set_char_inv st id j c :
  Inv st ->
  Inv (set_objs st (map (fun o' => if Nat.eqb (oid o') id then (oid o', (oname o', set_nth_b j c (oseq o'))) else o')
                        (c_objs st)) (c_index st)).
Proof.
  intros [[Hs Hn] [[Hnd Hlt] Hrect]]. unfold set_objs.
  set (f := fun o' : obj => if Nat.eqb (oid o') id then (oid o', (oname o', set_nth_b j c (oseq o'))) else o').
  assert (Fid : forall o, oid (f o) = oid o) by (intros o; unfold f; destruct (Nat.eqb (oid o) id); reflexivity).
  assert (Fname : forall o, oname (f o) = oname o) by (intros o; unfold f; destruct (Nat.eqb (oid o) id); reflexivity).
  assert (Flen : forall o, length (oseq (f o)) = length (oseq o)).
  { intros o; unfold f; destruct (Nat.eqb (oid o) id); [|reflexivity]. unfold oseq at 1. cbn. apply set_nth_b_length. }
  split; [|split].
  - split; cbn [c_objs c_index].
    + intros n k H. destruct (Hs n k H) as [o [Hin [E1 E2]]]. exists (f o). split; [apply in_map; exact Hin|].
      rewrite Fid, Fname. split; assumption.
    + intros n H o' Ho'. apply in_map_iff in Ho' as [o [<- Ho]]. rewrite Fname. apply (Hn n H o Ho).
  - split; cbn [c_objs c_next].
    + rewrite map_map. rewrite (map_ext _ oid) by exact Fid. exact Hnd.
    + intros o' Ho'. apply in_map_iff in Ho' as [o [<- Ho]]. rewrite Fid. apply Hlt. exact Ho.
  - intros Hk o' Ho'. cbn [c_objs c_kind c_len] in *. apply in_map_iff in Ho' as [o [<- Ho]].
    rewrite Flen. apply (Hrect Hk o Ho).
Qed.

Definition covered (op : cop) : bool :=
  match op with
  | OpAdd _ _ | OpPolicy _ | OpAppend _ | OpIdent _ _ | OpRename _ | OpRenameLit _ _ | OpCleanNames
  | OpSort | OpClear | OpShuffle _ | OpTrimAuto _ | OpTrim _ _ | OpSetChar _ _ _ | OpClone => true
  | _ => false
  end.

Lemma add_all_inv as_align : forall rs st,
  Inv st -> (as_align = true -> c_kind st = true) -> (as_align = false -> c_kind st = false) ->
  Inv (fst (add_all as_align st rs)) /\ c_kind (fst (add_all as_align st rs)) = c_kind st.
Proof.
  induction rs as [|[n s] t IH]; intros st Hinv Hk1 Hk2; simpl; [auto|].
  destruct (add_seq as_align st n s) as [st'| |] eqn:E; [| apply IH; assumption | auto].
  destruct (add_seq_inv as_align st n s st' Hinv Hk1 Hk2 E) as [Hinv' [nm [_ [Hk' _]]]].
  destruct (IH st' Hinv') as [H1 H2]; [rewrite Hk'; exact Hk1 | rewrite Hk'; exact Hk2|].
  split; [exact H1 | congruence].
Qed.

Theorem step_inv st op : covered op = true -> Inv st -> Inv (fst (step st op)).
Proof.
  intros Hc Hinv. destruct op; try discriminate; cbn [step].
  - destruct (add_seq (c_kind st) st name seq) as [st'| |] eqn:E; simpl; auto.
    apply (add_seq_inv (c_kind st) st name seq st' Hinv); auto; intros H; rewrite H; reflexivity.
  - destruct Hinv as [H1 [H2 H3]]. simpl. split; [exact H1|]. split; [exact H2 | exact H3].
  - apply add_all_inv; auto; intros H; rewrite H; reflexivity.
  - destruct id; simpl; [exact Hinv | apply rename_with_inv; exact Hinv].
  - simpl. apply rename_with_inv; exact Hinv.
  - simpl. apply rename_with_inv; exact Hinv.
  - simpl. apply rename_with_inv; exact Hinv.
  - (* TrimNamesAuto *) simpl. apply set_names_inv; exact Hinv.
  - (* TrimNames *)
    destruct (if (size - 2 <? 0)%Z then (0 <? Z.of_nat (length (c_objs st)))%Z
              else (10 ^ (size - 2) <? Z.of_nat (length (c_objs st)))%Z); [exact Hinv|].
    destruct (trim_names (c_objs st) m (map snd m) (Z.to_nat (size - 2))) as [nn|]; [|exact Hinv].
    simpl. apply set_names_inv; exact Hinv.
  - simpl. apply reorder_inv; [exact Hinv | apply sort_objs_perm].
  - (* ShuffleSequences *) simpl. apply reorder_inv; [exact Hinv | apply shuffle_objs_perm].
  - simpl. unfold clear, Inv, index_ok, ids_ok, rect_ok. simpl.
    repeat split; try discriminate; try constructor; intros; contradiction.
  - (* Clone: the rows are added to a fresh container of the same kind and policy *)
    apply add_all_inv; [| intros H; exact H | intros H; exact H].
    unfold Inv, index_ok, ids_ok, rect_ok. simpl.
    repeat split; try discriminate; try constructor; intros; contradiction.
  - (* SetSequenceChar *)
    destruct (if (i <? 0)%Z then None else nth_error (c_objs st) (Z.to_nat i)) as [o|]; [|exact Hinv].
    destruct ((j <? 0)%Z || (Z.of_nat (length (oseq o)) <=? j)%Z); [exact Hinv|].
    simpl. apply set_char_inv; exact Hinv.
Qed.

(* every state reachable by covered operations satisfies the invariant *)
Theorem run_inv h st : forallb covered h = true -> Inv st -> Inv (run h st).
Proof.
  revert st. induction h as [|op t IH]; intros st Hc Hinv; simpl in *; [exact Hinv|].
  apply andb_true_iff in Hc as [Hc1 Hc2]. apply IH; [exact Hc2 | apply step_inv; assumption].
Qed.

(* consequences for every reachable alignment *)
Theorem reachable_rectangular h kind alpha :
  forallb covered h = true ->
  let st := run h (empty_state kind alpha) in
  c_kind st = true -> forall r, In r (abs st) -> Z.of_nat (length (snd r)) = c_len st.
Proof.
  intros Hc st Hk r Hr. destruct (run_inv h _ Hc (Inv_empty kind alpha)) as [_ [_ Hrect]].
  unfold abs in Hr. apply in_map_iff in Hr as [o [<- Hin]]. apply (Hrect Hk o Hin).
Qed.

Theorem reachable_access_paths h kind alpha n :
  forallb covered h = true ->
  let st := run h (empty_state kind alpha) in
  NoDup (map oname (c_objs st)) -> get_by_name st n = lassoc n (abs st).
Proof. intros Hc st Hnd. apply access_paths_agree; [apply run_inv; [exact Hc | apply Inv_empty] | exact Hnd]. Qed.

(* sorting only re-orders *)
Theorem sort_is_permutation st : Permutation (abs (fst (step st OpSort))) (abs st).
Proof. simpl. unfold abs, set_objs. cbn [c_objs]. apply Permutation_map. apply sort_objs_perm. Qed.
