(* Round trip of the Phylip writer model through the reference reader, for the
   three relaxed layouts (interleaved blocks of 60, one line, no blocks). *)
From Coq Require Import List Arith Bool NArith Lia.
From Coq.Strings Require Import Byte.
Import ListNotations.
From GA.Base Require Import Bytes Dec Align.
From GA.Model Require Import Phylip.

Definition plainb (b : byte) : bool := negb (Byte.eqb b SP) && negb (Byte.eqb b NL).
Definition plain (l : list byte) : Prop := forallb plainb l = true.

Lemma plain_cons b l : plain (b :: l) -> plainb b = true /\ plain l.
Proof. unfold plain. cbn [forallb]. intros H. apply andb_true_iff in H. exact H. Qed.

Lemma plainb_nonblank b : plainb b = true -> nonblank b = true.
Proof. unfold plainb, nonblank. intros H. apply andb_true_iff in H as [H _]. exact H. Qed.
Lemma plainb_not_sp b : plainb b = true -> Byte.eqb b SP = false.
Proof. unfold plainb. intros H. apply andb_true_iff in H as [H _]. apply negb_true_iff in H. exact H. Qed.
Lemma plainb_not_nl b : plainb b = true -> Byte.eqb b NL = false.
Proof. unfold plainb. intros H. apply andb_true_iff in H as [_ H]. apply negb_true_iff in H. exact H. Qed.

(* ---- lines ------------------------------------------------------------------------------------------- *)
Definition no_nl (l : list byte) : Prop := forallb (fun b => negb (Byte.eqb b NL)) l = true.

Lemma split_line l : no_nl l -> forall rest cur,
  split_lines_aux (l ++ NL :: rest) cur = (rev cur ++ l) :: split_lines_aux rest [].
Proof.
  induction l as [|b t IH]; intros H rest cur.
  - cbn [app split_lines_aux]. change (Byte.eqb NL NL) with true. cbn. rewrite app_nil_r. reflexivity.
  - unfold no_nl in H. cbn [forallb] in H. apply andb_true_iff in H as [Hb Ht]. apply negb_true_iff in Hb.
    cbn [app split_lines_aux]. rewrite Hb. rewrite (IH Ht). cbn [rev]. rewrite <- app_assoc. reflexivity.
Qed.

Lemma split_join ls : Forall no_nl ls -> split_lines (join_lines ls) = ls.
Proof.
  unfold split_lines. induction 1 as [|l ls Hl _ IH]; [reflexivity|].
  cbn [join_lines flat_map]. rewrite <- app_assoc. cbn [app]. rewrite (split_line l Hl). cbn [rev app].
  f_equal. exact IH.
Qed.

(* ---- blanks ------------------------------------------------------------------------------------------ *)
Lemma strip_plain l : plain l -> strip l = l.
Proof.
  induction l as [|b t IH]; intros H; [reflexivity|]. apply plain_cons in H as [Hb Ht].
  cbn [strip filter]. rewrite (plainb_nonblank b Hb). f_equal. apply IH. exact Ht.
Qed.

Lemma strip_app a b : strip (a ++ b) = strip a ++ strip b.
Proof. unfold strip. apply filter_app. Qed.

Lemma strip_repeat_sp n : strip (repeat SP n) = [].
Proof. induction n as [|n IH]; [reflexivity|]. cbn [repeat strip filter]. change (nonblank SP) with false. exact IH. Qed.

Lemma plain_firstn n l : plain l -> plain (firstn n l).
Proof.
  revert n; induction l as [|b t IH]; intros n H; [destruct n; reflexivity|]. destruct n; [reflexivity|].
  apply plain_cons in H as [Hb Ht]. unfold plain. cbn [firstn forallb]. rewrite Hb. apply IH. exact Ht.
Qed.
Lemma plain_skipn n l : plain l -> plain (skipn n l).
Proof.
  revert n; induction l as [|b t IH]; intros n H; [destruct n; reflexivity|]. destruct n; [exact H|].
  apply plain_cons in H as [_ Ht]. cbn [skipn]. apply IH. exact Ht.
Qed.

Lemma strip_groups_aux fuel k s : plain s -> strip (groups_aux fuel k s) = s.
Proof.
  revert s; induction fuel as [|f IH]; intros s H; cbn [groups_aux]; [apply strip_plain; exact H|].
  destruct (Nat.leb (length s) k); [apply strip_plain; exact H|].
  rewrite strip_app. cbn [strip filter]. change (nonblank SP) with false. fold (strip (groups_aux f k (skipn k s))).
  rewrite (strip_plain _ (plain_firstn k s H)), (IH _ (plain_skipn k s H)). apply firstn_skipn.
Qed.
Lemma strip_groups k s : plain s -> strip (groups k s) = s.
Proof. apply strip_groups_aux. Qed.

Lemma take_name_plain n rest : plain n -> take_name (n ++ SP :: rest) = (n, SP :: rest).
Proof.
  induction n as [|b t IH]; intros H.
  - cbn [app take_name]. change (Byte.eqb SP SP) with true. reflexivity.
  - apply plain_cons in H as [Hb Ht]. cbn [app take_name]. rewrite (plainb_not_sp b Hb), (IH Ht). reflexivity.
Qed.

(* ---- pieces of a row --------------------------------------------------------------------------------- *)
Fixpoint pieces (fuel w cur : nat) (s : list byte) : list (list byte) :=
  match fuel with
  | O => []
  | S f => if Nat.ltb cur (length s) then firstn w (skipn cur s) :: pieces f w (cur + w) s else []
  end.

Lemma skipn_plus {A} (a b : nat) (l : list A) : skipn (a + b) l = skipn b (skipn a l).
Proof.
  revert l; induction a as [|a IH]; intros l; [reflexivity|].
  destruct l as [|x t]; [destruct b; reflexivity|]. cbn [Nat.add skipn]. apply IH.
Qed.

Lemma pieces_concat fuel w s : 0 < w -> forall cur, length s <= cur + fuel * w ->
  concat (pieces fuel w cur s) = skipn cur s.
Proof.
  intros Hw. induction fuel as [|f IH]; intros cur Hlen; cbn [pieces].
  - cbn in Hlen. rewrite skipn_all2 by lia. reflexivity.
  - destruct (Nat.ltb_spec cur (length s)) as [Hlt|Hge].
    + cbn [concat]. rewrite IH by (cbn in Hlen; lia).
      rewrite skipn_plus. apply firstn_skipn.
    + rewrite skipn_all2 by lia. reflexivity.
Qed.

(* ---- the header line holds no line end ------------------------------------------------------------------ *)
Lemma digit_not_nl d : (d < 10)%N -> Byte.eqb (digit_of_N d) NL = false.
Proof.
  intros H. rewrite <- (N2Nat.id d). assert (Hn : N.to_nat d < 10) by lia.
  revert Hn. generalize (N.to_nat d). clear. intros m Hm.
  do 10 (destruct m as [|m]; [reflexivity|]). lia.
Qed.

Lemma dec_digits_no_nl fuel : forall n acc, no_nl acc -> no_nl (dec_digits fuel n acc).
Proof.
  induction fuel as [|f IH]; intros n acc H; cbn [dec_digits]; [exact H|].
  assert (H' : no_nl (digit_of_N (n mod 10) :: acc)).
  { unfold no_nl. cbn [forallb]. rewrite digit_not_nl by (apply N.mod_lt; discriminate). exact H. }
  destruct (N.eqb (n / 10) 0); [exact H' | apply IH; exact H'].
Qed.

Lemma header_no_nl n L : no_nl (header n L).
Proof.
  unfold header, dec_of_nat, dec_of_N, no_nl. rewrite !forallb_app. cbn [forallb].
  change (Byte.eqb SP NL) with false. cbn [negb andb].
  rewrite (dec_digits_no_nl _ _ [] eq_refl), (dec_digits_no_nl _ _ [] eq_refl). reflexivity.
Qed.

Lemma plain_no_nl l : plain l -> no_nl l.
Proof.
  induction l as [|b t IH]; intros H; [reflexivity|]. apply plain_cons in H as [Hb Ht].
  unfold no_nl. cbn [forallb]. rewrite (plainb_not_nl b Hb). apply IH. exact Ht.
Qed.

Lemma no_nl_app a b : no_nl a -> no_nl b -> no_nl (a ++ b).
Proof. unfold no_nl. intros Ha Hb. rewrite forallb_app, Ha, Hb. reflexivity. Qed.

Lemma groups_aux_no_nl fuel k s : plain s -> no_nl (groups_aux fuel k s).
Proof.
  revert s; induction fuel as [|f IH]; intros s H; cbn [groups_aux]; [apply plain_no_nl; exact H|].
  destruct (Nat.leb (length s) k); [apply plain_no_nl; exact H|].
  apply no_nl_app; [apply plain_no_nl, plain_firstn; exact H|].
  unfold no_nl. cbn [forallb]. change (Byte.eqb SP NL) with false. cbn [negb andb]. apply IH, plain_skipn; exact H.
Qed.

(* ---- representable alignments ------------------------------------------------------------------------ *)
Definition good_row (L : nat) (r : row) : Prop :=
  fst r <> [] /\ plain (fst r) /\ plain (snd r) /\ length (snd r) = L.

Definition relaxed (ly : layout) : Prop := strict ly = false.

Lemma row_line_no_nl ly first w bl cur L r : relaxed ly -> good_row L r -> no_nl (row_line ly first w bl cur r).
Proof.
  intros Hs [_ [Hn [Hq _]]]. unfold row_line. rewrite Hs.
  assert (Hp : plain (firstn w (skipn cur (snd r)))) by (apply plain_firstn, plain_skipn; exact Hq).
  apply no_nl_app; [|apply groups_aux_no_nl; exact Hp].
  destruct first.
  - apply no_nl_app; [apply plain_no_nl; exact Hn | reflexivity].
  - destruct (firstn w (skipn cur (snd r))); reflexivity.
Qed.

(* block starts *)
Fixpoint starts (fuel w cur L : nat) : list nat :=
  match fuel with
  | O => []
  | S f => if Nat.ltb cur L then cur :: starts f w (cur + w) L else []
  end.

Lemma pieces_starts fuel w s : forall cur,
  pieces fuel w cur s = map (fun c => firstn w (skipn c s)) (starts fuel w cur (length s)).
Proof.
  induction fuel as [|f IH]; intros cur; cbn [pieces starts]; [reflexivity|].
  destruct (Nat.ltb cur (length s)); [cbn [map]; f_equal; apply IH | reflexivity].
Qed.

Lemma starts_lt fuel w L : forall cur c, In c (starts fuel w cur L) -> c < L.
Proof.
  induction fuel as [|f IH]; intros cur c H; cbn [starts] in H; [contradiction|].
  destruct (Nat.ltb_spec cur L); [|contradiction]. destruct H as [<-|H]; [assumption | apply (IH _ _ H)].
Qed.

Lemma starts_pos fuel w L : 0 < w -> forall cur c, 0 < cur -> In c (starts fuel w cur L) -> 0 < c.
Proof.
  intros Hw. induction fuel as [|f IH]; intros cur c Hc H; cbn [starts] in H; [contradiction|].
  destruct (Nat.ltb cur L); [|contradiction]. destruct H as [<-|H]; [assumption | apply (IH (cur + w) c); [lia | exact H]].
Qed.

Lemma filter_all {A} (p : A -> bool) l : (forall x, In x l -> p x = true) -> filter p l = l.
Proof.
  induction l as [|x t IH]; intros H; [reflexivity|]. cbn [filter]. rewrite (H x (or_introl eq_refl)).
  f_equal. apply IH. intros y Hy. apply H. right. exact Hy.
Qed.

Definition data_lines (ly : layout) (w bl : nat) (a : list row) (cs : list nat) : list (list byte) :=
  flat_map (fun c => map (row_line ly (Nat.eqb c 0) w bl c) a) cs.

Lemma all_lines_no_nl ly w bl L a : relaxed ly -> Forall (good_row L) a ->
  forall fuel cur, Forall no_nl (block_lines fuel ly w bl cur L a).
Proof.
  intros Hs Ha. induction fuel as [|f IH]; intros cur; cbn [block_lines]; [constructor|].
  destruct (Nat.ltb cur L); [|constructor].
  apply Forall_app. split; [destruct (Nat.eqb cur 0); repeat constructor|].
  apply Forall_app. split; [|apply IH].
  apply Forall_forall. intros l Hl. apply in_map_iff in Hl as [r [<- Hr]].
  apply (row_line_no_nl ly _ w bl cur L r Hs). rewrite Forall_forall in Ha. apply Ha. exact Hr.
Qed.

(* a row line is not blank *)
Lemma row_line_not_empty ly w bl cur L r : relaxed ly -> 0 < w -> good_row L r -> cur < L ->
  is_empty_line (row_line ly (Nat.eqb cur 0) w bl cur r) = false.
Proof.
  intros Hs Hw [Hne [Hn [Hq Hlen]]] Hc. unfold is_empty_line, row_line. rewrite Hs.
  assert (Hp : plain (firstn w (skipn cur (snd r)))) by (apply plain_firstn, plain_skipn; exact Hq).
  assert (Hnp : firstn w (skipn cur (snd r)) <> []).
  { intros E. apply (f_equal (@length _)) in E. rewrite firstn_length, skipn_length in E. cbn in E. lia. }
  rewrite strip_app, (strip_groups _ _ Hp).
  destruct (strip _ ++ firstn w (skipn cur (snd r))) eqn:E; [|reflexivity].
  apply app_eq_nil in E as [_ E]. contradiction.
Qed.

Lemma filter_block_lines ly w bl L a : relaxed ly -> 0 < w -> Forall (good_row L) a ->
  forall fuel cur,
  filter (fun l => negb (is_empty_line l)) (block_lines fuel ly w bl cur L a) = data_lines ly w bl a (starts fuel w cur L).
Proof.
  intros Hs Hw Ha. induction fuel as [|f IH]; intros cur; cbn [block_lines starts]; [reflexivity|].
  destruct (Nat.ltb_spec cur L) as [Hc|Hc]; [|reflexivity].
  unfold data_lines. cbn [flat_map]. fold (data_lines ly w bl a (starts f w (cur + w) L)).
  rewrite filter_app.
  replace (filter (fun l => negb (is_empty_line l)) (if Nat.eqb cur 0 then [] else [[]])) with (@nil (list byte))
    by (destruct (Nat.eqb cur 0); reflexivity).
  cbn [app]. rewrite filter_app, IH. f_equal.
  apply filter_all. intros l Hl. apply in_map_iff in Hl as [r [<- Hr]].
  rewrite (row_line_not_empty ly w bl cur L r Hs Hw); [reflexivity | | exact Hc].
    rewrite Forall_forall in Ha. apply Ha. exact Hr.
Qed.

(* ---- blocks ------------------------------------------------------------------------------------------- *)
Lemma chunks_flat {A C} (a : list C) (g : nat -> C -> A) : a <> [] ->
  forall cs fuel, length cs <= fuel ->
  chunks fuel (length a) (flat_map (fun c => map (g c) a) cs) = map (fun c => map (g c) a) cs.
Proof.
  intros Ha. induction cs as [|c cs IH]; intros fuel Hf.
  - destruct fuel; reflexivity.
  - destruct fuel as [|f]; [cbn in Hf; lia|]. cbn [flat_map chunks map].
    destruct (map (g c) a ++ flat_map (fun c0 => map (g c0) a) cs) eqn:E.
    + destruct a; [congruence | discriminate E].
    + rewrite <- E. rewrite <- (map_length (g c) a) at 1 3.
      rewrite firstn_app, Nat.sub_diag, firstn_all, firstn_O, app_nil_r.
      rewrite skipn_app, Nat.sub_diag, skipn_all, skipn_O. cbn [app].
      f_equal. apply IH. cbn in Hf. lia.
Qed.

Lemma nth_map_in {A B} (f : A -> B) (l : list A) k (d : A) (d' : B) : k < length l -> nth k (map f l) d' = f (nth k l d).
Proof.
  revert k; induction l as [|x t IH]; intros k H; [cbn in H; lia|]. destruct k; [reflexivity|].
  cbn [map nth]. apply IH. cbn in H. lia.
Qed.

Lemma list_as_nth_seq {A} (l : list A) (d : A) : map (fun k => nth k l d) (seq 0 (length l)) = l.
Proof.
  induction l as [|x t IH]; [reflexivity|]. cbn [length seq map nth]. f_equal.
  rewrite <- seq_shift, map_map. exact IH.
Qed.

(* ---- the round trip ---------------------------------------------------------------------------------- *)
Theorem phylip_roundtrip wl wb ly a L :
  0 < wl -> relaxed ly -> a <> [] -> 0 < L -> Forall (good_row L) a ->
  read (length a) (write wl wb ly a) = a.
Proof.
  intros Hwl Hs Hne HL Ha.
  assert (HL0 : match a with [] => 0 | r :: _ => length (snd r) end = L).
  { destruct a as [|r t]; [congruence|]. inversion Ha as [|? ? [_ [_ [_ E]]] _]; subst. reflexivity. }
  unfold read, write, write_lines. rewrite HL0.
  set (w := if oneline ly then L else wl). set (bl := if noblock ly then w else wb).
  assert (Hw : 0 < w) by (unfold w; destruct (oneline ly); lia).
  rewrite split_join.
  2:{ constructor; [apply header_no_nl | apply (all_lines_no_nl ly w bl L a Hs Ha)]. }
  rewrite (filter_block_lines ly w bl L a Hs Hw Ha).
  (* the first block starts at 0 *)
  cbn [starts]. destruct (Nat.ltb_spec 0 L) as [_|Hc]; [|lia]. cbn [Nat.add].
  set (cs := starts L w w L).
  unfold read_blocks, data_lines.
  rewrite (chunks_flat a (fun c => row_line ly (Nat.eqb c 0) w bl c) Hne).
  2:{ rewrite flat_map_concat_map, length_concat_le || idtac. cbn [length]. 
      assert (G : forall cs', length cs' <= length (flat_map (fun c => map (row_line ly (Nat.eqb c 0) w bl c) a) cs')).
      { induction cs' as [|c cs' IHc]; [cbn; lia|]. cbn [flat_map length]. rewrite app_length, map_length.
        destruct a; [congruence|]. cbn [length]. lia. }
      apply (G (0 :: cs)). }
  cbn [map]. change (Nat.eqb 0 0) with true.
  set (d := (@nil byte, @nil byte)).
  transitivity (map (fun k => nth k a d) (seq 0 (length a))); [|apply list_as_nth_seq].
  apply map_ext_in. intros k Hk. apply in_seq in Hk. cbn [Nat.add] in Hk.
  assert (Hr : good_row L (nth k a d)).
  { rewrite Forall_forall in Ha. apply Ha. apply nth_In. lia. }
  rewrite (nth_map_in _ a k d []) by lia.
  assert (Hoth : forall c, In c cs ->
            strip (nth k (map (row_line ly (Nat.eqb c 0) w bl c) a) []) = firstn w (skipn c (snd (nth k a d)))).
  { intros c Hc. rewrite (nth_map_in _ a k d []) by lia.
    destruct Hr as [Hnn [Hn [Hq Hlen]]].
    assert (Hc0 : 0 < c) by (apply (starts_pos L w L Hw w c Hw Hc)).
    assert (HcL : c < L) by (apply (starts_lt L w L w c Hc)).
    destruct (Nat.eqb_spec c 0); [lia|].
    unfold row_line. rewrite Hs.
    assert (Hnp : firstn w (skipn c (snd (nth k a d))) <> []).
    { intros E. apply (f_equal (@length _)) in E. rewrite firstn_length, skipn_length, Hlen in E. cbn in E. lia. }
    destruct (firstn w (skipn c (snd (nth k a d)))) eqn:E; [congruence|]. rewrite <- E.
    rewrite strip_app. change (strip [SP; SP; SP]) with (@nil byte). cbn [app].
    apply strip_groups. apply plain_firstn, plain_skipn. exact Hq. }
  remember (nth k a d) as r eqn:Er. destruct r as [nm sq]. cbn [fst snd] in *.
  destruct Hr as [Hnn [Hn [Hq Hlen]]].
  unfold row_line at 1. rewrite Hs. cbn [fst snd].
  replace ((nm ++ [SP; SP]) ++ groups bl (firstn w (skipn 0 sq))) with (nm ++ SP :: (SP :: groups bl (firstn w sq)))
    by (rewrite <- app_assoc; reflexivity).
  rewrite (take_name_plain _ _ Hn). f_equal.
  change (strip (SP :: SP :: groups bl (firstn w sq))) with (strip (groups bl (firstn w sq))).
  rewrite (strip_groups _ _ (plain_firstn w sq Hq)).
  rewrite flat_map_concat_map, map_map.
  rewrite (map_ext_in _ (fun c => firstn w (skipn c sq)) cs Hoth).
  change (firstn w sq ++ concat (map (fun c => firstn w (skipn c sq)) cs))
    with (concat (map (fun c => firstn w (skipn c sq)) (0 :: cs))).
  replace (0 :: cs) with (starts (S L) w 0 (length sq)).
  - rewrite <- pieces_starts. rewrite pieces_concat; [reflexivity | exact Hw |]. cbn [snd] in Hlen. rewrite Hlen. nia.
  - cbn [snd] in Hlen. rewrite Hlen. cbn [starts]. destruct (Nat.ltb_spec 0 L); [reflexivity | lia].
Qed.
