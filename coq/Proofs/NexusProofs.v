From Coq Require Import List Arith Bool NArith ZArith Lia.
From Coq.Strings Require Import Byte.
Import ListNotations.
From GA.Base Require Import Bytes Dec Align.
From GA.Model Require Import Phylip Nexus.
From GA.Proofs Require Import PhylipProofs.

Local Open Scope bs_scope.
Definition good_nrow (r : row) : Prop := fst r <> [] /\ plain (fst r) /\ plain (snd r).

Lemma dec_of_Z_no_nl z : no_nl (dec_of_Z z).
Proof.
  unfold dec_of_Z. destruct (Z.ltb z 0).
  - unfold no_nl. cbn [forallb]. change (Byte.eqb x2d NL) with false. cbn [negb andb].
    unfold dec_of_N. apply (dec_digits_no_nl _ _ [] eq_refl).
  - unfold dec_of_N. apply (dec_digits_no_nl _ _ [] eq_refl).
Qed.

Lemma row_line_no_nl r : good_nrow r -> no_nl (fst r ++ SP :: snd r).
Proof.
  intros [_ [Hn Hs]]. apply no_nl_app; [apply plain_no_nl; exact Hn|].
  unfold no_nl. cbn [forallb]. change (Byte.eqb SP NL) with false. cbn [negb andb]. apply plain_no_nl. exact Hs.
Qed.

Lemma lines_no_nl protein a : Forall good_nrow a -> Forall no_nl (nexus_lines protein a).
Proof.
  intros Ha. unfold nexus_lines. repeat (apply Forall_cons || apply Forall_app; try split); try reflexivity.
  - repeat apply no_nl_app; try reflexivity; [unfold dec_of_nat, dec_of_N; apply (dec_digits_no_nl _ _ [] eq_refl) | apply dec_of_Z_no_nl].
  - repeat apply no_nl_app; try reflexivity. destruct protein; reflexivity.
  - apply Forall_forall. intros l Hl. apply in_map_iff in Hl as [r [<- Hr]]. apply row_line_no_nl.
    rewrite Forall_forall in Ha. apply Ha. exact Hr.
  - repeat constructor.
Qed.

Lemma has_sp_not_semi n s : bytes_eqb (n ++ SP :: s) kw_semi = false.
Proof.
  destruct n as [|b [|c n']]; cbn.
  - reflexivity.
  - apply andb_false_r.
  - apply andb_false_r.
Qed.

Lemma until_semi_rows (a : list row) rest :
  until_semi (map (fun r : row => fst r ++ SP :: snd r) a ++ kw_semi :: rest) = map (fun r : row => fst r ++ SP :: snd r) a.
Proof.
  induction a as [|r t IH]; cbn [map app until_semi].
  - reflexivity.
  - rewrite has_sp_not_semi. f_equal. exact IH.
Qed.

(* reading back the matrix block of what the writer wrote gives the rows *)
Theorem nexus_roundtrip protein a : Forall good_nrow a -> read (write protein a) = a.
Proof.
  intros Ha. unfold read, write. rewrite (split_join _ (lines_no_nl protein a Ha)).
  unfold nexus_lines.
  assert (E : after_matrix
               ([kw_nexus; kw_begin;
                 unbs "dimensions ntax=" ++ dec_of_nat (length a) ++ unbs " nchar=" ++ dec_of_Z (alen a) ++ unbs ";";
                 unbs "format datatype=" ++ (if protein then unbs "protein" else unbs "dna") ++ unbs ";"; kw_matrix] ++
                map (fun r : row => fst r ++ SP :: snd r) a ++ [kw_semi; kw_end]) =
              map (fun r : row => fst r ++ SP :: snd r) a ++ [kw_semi; kw_end]).
  { cbn [app after_matrix]. change (bytes_eqb kw_nexus kw_matrix) with false. change (bytes_eqb kw_begin kw_matrix) with false.
    cbn match. change (bytes_eqb kw_matrix kw_matrix) with true.
    replace (bytes_eqb (unbs "dimensions ntax=" ++ dec_of_nat (length a) ++ unbs " nchar=" ++ dec_of_Z (alen a) ++ unbs ";") kw_matrix) with false by reflexivity.
    replace (bytes_eqb (unbs "format datatype=" ++ (if protein then unbs "protein" else unbs "dna") ++ unbs ";") kw_matrix) with false by reflexivity.
    reflexivity. }
  rewrite E. rewrite (until_semi_rows a [kw_end]). rewrite map_map.
  transitivity (map (fun r : row => r) a); [|apply map_id].
  apply map_ext_in. intros r Hr. rewrite Forall_forall in Ha. destruct (Ha r Hr) as [_ [Hn Hs]].
  rewrite (take_name_plain _ _ Hn). cbn [strip filter]. change (nonblank SP) with false.
  fold (strip (snd r)). rewrite (strip_plain _ Hs). destruct r; reflexivity.
Qed.
