(* The entropy of a column (Model/Entropy.v) does not depend on the order in which the kinds of characters
   are visited, is never negative, and is zero for a column holding a single kind. *)
From Coq Require Import List ZArith Reals Lra Lia Permutation.
Import ListNotations.
From GA.Model Require Import Entropy.
Local Open Scope R_scope.

Lemma total_of_perm l l' : Permutation l l' -> total_of l = total_of l'.
Proof.
  intros H. induction H as [|x l l' _ IH|x y l|l l' l'' _ IH1 _ IH2]; unfold total_of in *; cbn [fold_right]; try lra;
    try (rewrite IH; reflexivity); try (rewrite IH1; exact IH2).
Qed.

Definition terms (t : R) (counts : list Z) : R :=
  fold_right (fun c acc => acc - (IZR c / t) * ln (IZR c / t)) 0 counts.

Lemma terms_perm t l l' : Permutation l l' -> terms t l = terms t l'.
Proof.
  intros H. induction H as [|x l l' _ IH|x y l|l l' l'' _ IH1 _ IH2]; unfold terms in *; cbn [fold_right]; try lra;
    try (rewrite IH; reflexivity); try (rewrite IH1; exact IH2).
Qed.

(* the value is a function of the multiset of counts: visiting the kinds in any order gives the same real
   number (the code must therefore fix an order, or its rounded sum depends on the map iteration) *)
Theorem entropy_order_independent l l' : Permutation l l' -> entropy_of l = entropy_of l'.
Proof.
  intros H. unfold entropy_of. cbv zeta. rewrite (total_of_perm l l' H). apply (terms_perm _ l l' H).
Qed.

Lemma total_ge l : Forall (fun c => (0 < c)%Z) l -> forall c, In c l -> IZR c <= total_of l.
Proof.
  induction 1 as [|x t Hx Ht IH]; intros c Hc; [destruct Hc|]. unfold total_of in *. cbn [fold_right].
  assert (Hpos : 0 <= fold_right (fun c acc => IZR c + acc) 0 t).
  { clear IH Hc. induction Ht as [|y u Hy _ IHu]; cbn [fold_right]; [lra|]. apply IZR_lt in Hy. lra. }
  destruct Hc as [->|Hc].
  - lra.
  - specialize (IH c Hc). apply IZR_lt in Hx. lra.
Qed.

Lemma term_nonneg p : 0 < p <= 1 -> 0 <= - (p * ln p).
Proof.
  intros [H0 H1]. assert (ln p <= 0).
  { destruct (Rle_lt_or_eq_dec p 1 H1) as [Hlt| ->]; [|rewrite ln_1; lra].
    left. rewrite <- ln_1. apply ln_increasing; assumption. }
  nra.
Qed.

Theorem entropy_nonneg l : Forall (fun c => (0 < c)%Z) l -> 0 <= entropy_of l.
Proof.
  intros H. unfold entropy_of. cbv zeta. pose proof (total_ge l H) as Hge. set (t := total_of l) in *. clearbody t.
  induction H as [|x u Hx Hu IH]; cbn [fold_right]; [lra|].
  assert (Hxt : IZR x <= t) by (apply Hge; left; reflexivity).
  assert (Hx0 : 0 < IZR x) by (apply IZR_lt in Hx; exact Hx).
  assert (Hp : 0 < IZR x / t <= 1).
  { split; [apply Rdiv_lt_0_compat; lra|]. unfold Rdiv. apply (Rmult_le_reg_r t); [lra|]. rewrite Rmult_assoc, Rinv_l by lra. lra. }
  pose proof (term_nonneg _ Hp).
  assert (0 <= fold_right (fun c acc => acc - IZR c / t * ln (IZR c / t)) 0 u).
  { apply IH. intros c Hc. apply Hge. right. exact Hc. }
  lra.
Qed.

Theorem entropy_single c : (0 < c)%Z -> entropy_of [c] = 0.
Proof.
  intros H. unfold entropy_of, total_of. cbn [fold_right]. apply IZR_lt in H.
  replace (IZR c / (IZR c + 0)) with 1 by (field; lra). rewrite ln_1. lra.
Qed.
