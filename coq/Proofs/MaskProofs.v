From Coq Require Import List Bool NArith ZArith Lia.
From Coq.Strings Require Import Byte.
Import ListNotations.
From GA.Base Require Import Bytes Align.
From GA.Gen Require Import Alpha.
From GA.Model Require Import Mask.

Lemma nth_map_seq {A} (f : nat -> A) n i d : i < n -> nth i (map f (seq 0 n)) d = f i.
Proof.
  intros H. rewrite nth_indep with (d' := f 0) by (rewrite map_length, seq_length; exact H).
  rewrite map_nth. rewrite seq_nth by exact H. reflexivity.
Qed.

(* ---- Mask: pointwise characterisation of a row ------------------------------------------------ *)
Lemma mask_row_length start len nogap noref rep refc s :
  length (mask_row start len nogap noref rep refc s) = length s.
Proof. unfold mask_row. rewrite map_length, seq_length. reflexivity. Qed.

Lemma mask_row_nth start len nogap noref rep refc s i d :
  i < length s ->
  nth i (mask_row start len nogap noref rep refc s) d =
    if in_window start len i && negb (nogap && beqb (nth i s x2d) GAP) && negb (noref && beqb (nth i s x2d) (refc i))
    then rep i else nth i s x2d.
Proof. intros H. unfold mask_row. rewrite nth_map_seq by exact H. reflexivity. Qed.

Lemma in_window_iff start len i :
  in_window start len i = true <-> (start <= Z.of_nat i < start + len)%Z.
Proof. unfold in_window. rewrite andb_true_iff, Z.leb_le, Z.ltb_lt. tauto. Qed.

(* outside the window nothing changes; inside, protected residues do not change *)
Lemma mask_row_outside start len nogap noref rep refc s i d :
  i < length s -> ~ (start <= Z.of_nat i < start + len)%Z ->
  nth i (mask_row start len nogap noref rep refc s) d = nth i s x2d.
Proof.
  intros H Hw. rewrite mask_row_nth by exact H.
  destruct (in_window start len i) eqn:E; [apply in_window_iff in E; contradiction | reflexivity].
Qed.

Lemma mask_row_gap_protected start len noref rep refc s i d :
  i < length s -> nth i s x2d = GAP ->
  nth i (mask_row start len true noref rep refc s) d = GAP.
Proof.
  intros H Hg. rewrite mask_row_nth by exact H. rewrite Hg, beqb_refl. simpl.
  rewrite andb_false_r. reflexivity.
Qed.

Lemma mask_row_ref_protected start len nogap rep refc s i d :
  i < length s -> nth i s x2d = refc i ->
  nth i (mask_row start len nogap true rep refc s) d = nth i s x2d.
Proof.
  intros H Hr. rewrite mask_row_nth by exact H. rewrite Hr, beqb_refl. simpl.
  rewrite andb_false_r. reflexivity.
Qed.

(* a window extending past the end is truncated *)
Lemma mask_row_overhang start len len' nogap noref rep refc s :
  (start + len >= Z.of_nat (length s))%Z -> (start + len' >= Z.of_nat (length s))%Z ->
  mask_row start len nogap noref rep refc s = mask_row start len' nogap noref rep refc s.
Proof.
  intros H1 H2. unfold mask_row. apply map_ext_in. intros i Hi. apply in_seq in Hi.
  assert (in_window start len i = in_window start len' i) as ->; [|reflexivity].
  unfold in_window. f_equal. destruct (Z.ltb_spec (Z.of_nat i) (start + len)); destruct (Z.ltb_spec (Z.of_nat i) (start + len')); auto; lia.
Qed.

Lemma mask_frame alphabet rs refseq start len mr nogap noref out :
  mask alphabet rs refseq start len mr nogap noref = Some out ->
  map fst out = map fst rs /\
  map (fun r => length (snd r)) out = map (fun r => length (snd r)) rs /\
  (0 <= start <= alen rs)%Z.
Proof.
  unfold mask. destruct (Z.ltb_spec start 0); [discriminate|].
  destruct (start >? alen rs)%Z eqn:E; [discriminate|]. rewrite Z.gtb_ltb in E. apply Z.ltb_ge in E.
  destruct (rep_mode alphabet mr); [|discriminate].
  destruct (if negb (bytes_eqb refseq []) && noref then get_row refseq rs else Some []); [|discriminate].
  intros H0. inversion H0; subst. rewrite !map_map. cbn [fst snd]. split; [reflexivity|]. split; [|lia].
  apply map_ext. intros r0. apply mask_row_length.
Qed.

Lemma mask_error_iff alphabet rs refseq start len mr nogap noref :
  mask alphabet rs refseq start len mr nogap noref = None <->
  ((start < 0)%Z \/ (start > alen rs)%Z \/ rep_mode alphabet mr = None \/
   (refseq <> [] /\ noref = true /\ get_row refseq rs = None)).
Proof.
  unfold mask. destruct (Z.ltb_spec start 0); [split; auto|].
  destruct (start >? alen rs)%Z eqn:E; rewrite Z.gtb_ltb in E;
    [apply Z.ltb_lt in E; split; [intros _; right; left; lia | reflexivity]|apply Z.ltb_ge in E].
  destruct (rep_mode alphabet mr) eqn:R; [|split; auto].
  destruct (bytes_eqb refseq []) eqn:B; simpl.
  - apply bytes_eqb_eq in B. split; [discriminate|]. intros [?|[?|[?|[? _]]]]; try lia; try discriminate; contradiction.
  - destruct noref; simpl.
    + destruct (get_row refseq rs) eqn:G.
      * split; [discriminate|]. intros [?|[?|[?|[_ [_ ?]]]]]; try lia; discriminate.
      * split; [intros _|reflexivity]. right. right. right. split; [|auto].
        intros ->. rewrite bytes_eqb_refl in B. discriminate.
    + split; [discriminate|]. intros [?|[?|[?|[_ [? _]]]]]; try lia; discriminate.
Qed.

(* ---- the most frequent byte of a column (MAJ) -------------------------------------------------- *)
Lemma maj_fold_spec col l st :
  let res := fold_left (fun (st : byte * nat) c => let n := countb c col in
                                                   if Nat.ltb (snd st) n then (c, n) else st) l st in
  snd st <= snd res /\ (forall c, In c l -> countb c col <= snd res) /\
  (res = st \/ (In (fst res) l /\ snd res = countb (fst res) col /\ snd st < snd res)).
Proof.
  revert st. induction l as [|c t IH]; intros st; cbn [fold_left].
  - split; [lia|]. split; [intros c []|]. left. reflexivity.
  - cbv zeta. destruct (Nat.ltb_spec (snd st) (countb c col)) as [Hlt|Hge].
    + specialize (IH (c, countb c col)). cbv zeta in IH. destruct IH as [H1 [H2 H3]]. simpl in H1.
      split; [lia|]. split.
      * intros c' [<-|Hc']; [exact H1 | apply H2; exact Hc'].
      * right. destruct H3 as [E|[Ha [Hb Hc]]].
        -- rewrite E. simpl. split; [left; reflexivity|]. split; [reflexivity | exact Hlt].
        -- split; [right; exact Ha|]. split; [exact Hb | simpl in Hc; lia].
    + specialize (IH st). cbv zeta in IH. destruct IH as [H1 [H2 H3]].
      split; [exact H1|]. split.
      * intros c' [<-|Hc']; [lia | apply H2; exact Hc'].
      * destruct H3 as [E|[Ha [Hb Hc]]]; [left; exact E | right; split; [right; exact Ha | auto]].
Qed.

(* MAJ replacement: a most frequent byte of the column among ASCII bytes, or
   the default when the column is empty *)
Lemma maj_byte_spec rep0 col :
  (forall c, In c ascii130 -> countb c col <= countb (maj_byte rep0 col) col \/
                              (maj_byte rep0 col = rep0 /\ countb c col = 0)) /\
  (maj_byte rep0 col = rep0 \/ (In (maj_byte rep0 col) ascii130 /\ 0 < countb (maj_byte rep0 col) col)).
Proof.
  unfold maj_byte. pose proof (maj_fold_spec col ascii130 (rep0, 0)) as H. cbv zeta in H.
  destruct H as [H1 [H2 H3]]. destruct H3 as [E|[Ha [Hb Hc]]].
  - rewrite E. simpl. split; [|left; reflexivity]. intros c Hc. right. split; [reflexivity|].
    specialize (H2 c Hc). rewrite E in H2. simpl in H2. lia.
  - split; [|right; split; [exact Ha | cbn [snd] in Hc; lia]].
    intros c Hc'. left. rewrite <- Hb. apply H2. exact Hc'.
Qed.

(* ---- MaskOccurences: pointwise ------------------------------------------------------------------- *)
Lemma mask_occurences_spec alphabet rs refseq maxocc mr out :
  mask_occurences alphabet rs refseq maxocc mr = Some out ->
  exists mode refrow,
    rep_mode alphabet mr = Some mode /\
    (match refseq with [] => Some [] | _ => get_row refseq rs end) = Some refrow /\
    let reps := occ_reps mode refseq refrow rs (seq 0 (width rs)) x2e in
    map fst out = map fst rs /\
    forall k r, nth_error rs k = Some r ->
      exists r', nth_error out k = Some r' /\ fst r' = fst r /\ length (snd r') = length (snd r) /\
      forall i d, i < length (snd r) ->
        nth i (snd r') d = if occ_masked refseq refrow rs maxocc reps i r then nth i reps x2e else nth i (snd r) x2d.
Proof.
  unfold mask_occurences. destruct (rep_mode alphabet mr) as [mode|]; [|discriminate].
  destruct (match refseq with [] => Some [] | _ => get_row refseq rs end) as [refrow|]; [|discriminate].
  intros H. inversion H; subst. exists mode, refrow. split; [reflexivity|]. split; [reflexivity|].
  cbv zeta. split; [rewrite map_map; reflexivity|].
  intros k r Hk. eexists. split; [rewrite nth_error_map, Hk; reflexivity|]. cbn [fst snd].
  split; [reflexivity|]. split; [rewrite map_length, seq_length; reflexivity|].
  intros i d Hi. rewrite nth_map_seq by exact Hi. reflexivity.
Qed.

(* what "masked" means: a counted, non-gap residue, rare among the counted rows, different from the replacement *)
Lemma occ_masked_iff refseq refrow rs maxocc reps i r :
  occ_masked refseq refrow rs maxocc reps i r = true <->
  (counted refseq refrow i r = true /\
   (0 < Z.of_nat (countb (nth i (snd r) x2d) (counted_col refseq refrow rs i)) <= maxocc)%Z /\
   nth i (snd r) x2d <> nth i reps x2e /\ nth i (snd r) x2d <> GAP).
Proof.
  unfold occ_masked. rewrite !andb_true_iff, !negb_true_iff, Z.leb_le, Nat.ltb_lt, !beqb_neq. intuition lia.
Qed.
