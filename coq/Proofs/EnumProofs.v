(* The exhaustive enumeration of Spec/LocalEnum.v is complete: every valid local alignment of two sequences
   (Spec/Local.v valid_alignment) is enumerated, hence scores at most best_enum - for all sequences and all
   scoring parameters with non-positive gap costs. *)
From Coq Require Import List Bool ZArith Lia.
From Coq.Strings Require Import Byte.
Import ListNotations.
From GA.Base Require Import Bytes.
From GA.Spec Require Import Local LocalEnum.
Local Open Scope Z_scope.

Lemma fold_max_ge_init : forall l a, a <= fold_left Z.max l a.
Proof. induction l as [|x t IH]; intros a; cbn [fold_left]; [lia|]. eapply Z.le_trans; [|apply IH]. lia. Qed.

Lemma fold_max_ge_in : forall l a x, In x l -> x <= fold_left Z.max l a.
Proof.
  induction l as [|y t IH]; intros a x H; [destruct H|]. cbn [fold_left]. destruct H as [->|H].
  - eapply Z.le_trans; [|apply fold_max_ge_init]. lia.
  - apply IH. exact H.
Qed.

(* gapped rows without a column of two gaps are enumerated *)
Definition no_double_gap (r1 r2 : list byte) : Prop :=
  forall k, (k < length r1)%nat -> ~ (nth k r1 GAPB = GAPB /\ nth k r2 GAPB = GAPB).

Lemma isgap_true b : isgap b = true <-> b = GAPB.
Proof. unfold isgap. split; [apply beqb_eq | intros ->; apply beqb_refl]. Qed.

Lemma ungap_cons_gap b t : isgap b = true -> ungap (b :: t) = ungap t.
Proof. intros H. unfold ungap. cbn [filter]. rewrite H. reflexivity. Qed.
Lemma ungap_cons_res b t : isgap b = false -> ungap (b :: t) = b :: ungap t.
Proof. intros H. unfold ungap. cbn [filter]. rewrite H. reflexivity. Qed.

Lemma aligns_complete : forall r1 r2 fuel,
  length r1 = length r2 -> no_double_gap r1 r2 ->
  (length (ungap r1) + length (ungap r2) < fuel)%nat ->
  In (r1, r2) (aligns fuel (ungap r1) (ungap r2)).
Proof.
  induction r1 as [|a t1 IH]; intros r2 fuel Hl Hnd Hf.
  - destruct r2; [|discriminate]. destruct fuel; [cbn in Hf; lia|]. cbn. left. reflexivity.
  - destruct r2 as [|b t2]; [discriminate|]. cbn [length] in Hl. injection Hl as Hl.
    assert (Hnd' : no_double_gap t1 t2).
    { intros k Hk. apply (Hnd (S k)). cbn [length]. lia. }
    pose proof (Hnd 0%nat ltac:(cbn [length]; lia)) as H0. cbn [nth] in H0.
    destruct (isgap a) eqn:Ea; destruct (isgap b) eqn:Eb.
    + exfalso. apply H0. split; apply isgap_true; assumption.
    + (* gap in row 1 *)
      rewrite (ungap_cons_gap a t1 Ea), (ungap_cons_res b t2 Eb) in *. cbn [length] in Hf.
      destruct fuel as [|f]; [lia|]. apply isgap_true in Ea. subst a.
      specialize (IH t2 f Hl Hnd' ltac:(lia)).
      cbn [aligns]. destruct (ungap t1) as [|x u1] eqn:Eu.
      * apply in_map_iff. exists (t1, t2). split; [reflexivity | exact IH].
      * apply in_or_app. right. apply in_or_app. right. apply in_map_iff. exists (t1, t2). split; [reflexivity | exact IH].
    + (* gap in row 2 *)
      rewrite (ungap_cons_res a t1 Ea), (ungap_cons_gap b t2 Eb) in *. cbn [length] in Hf.
      destruct fuel as [|f]; [lia|]. apply isgap_true in Eb. subst b.
      specialize (IH t2 f Hl Hnd' ltac:(lia)).
      cbn [aligns]. destruct (ungap t2) as [|y u2] eqn:Eu.
      * apply in_map_iff. exists (t1, t2). split; [reflexivity | exact IH].
      * apply in_or_app. right. apply in_or_app. left. apply in_map_iff. exists (t1, t2). split; [reflexivity | exact IH].
    + rewrite (ungap_cons_res a t1 Ea), (ungap_cons_res b t2 Eb) in *. cbn [length] in Hf.
      destruct fuel as [|f]; [lia|]. specialize (IH t2 f Hl Hnd' ltac:(lia)).
      cbn [aligns]. apply in_or_app. left. apply in_map_iff. exists (t1, t2). split; [reflexivity | exact IH].
Qed.

(* every window of a sequence is one of its substrings *)
Lemma prefixes_firstn {A} (l : list A) n : In (firstn n l) (prefixes l).
Proof.
  revert n. induction l as [|x t IH]; intros n; [destruct n; left; reflexivity|].
  destruct n as [|n]; [left; reflexivity|]. cbn [firstn prefixes]. right. apply in_map. apply IH.
Qed.

Lemma suffixes_skipn {A} (l : list A) n : In (skipn n l) (suffixes l).
Proof.
  revert n. induction l as [|x t IH]; intros n; [destruct n; left; reflexivity|].
  destruct n as [|n]; [left; reflexivity|]. cbn [skipn suffixes]. right. apply IH.
Qed.

Lemma substrings_window {A} (l : list A) a n : In (firstn n (skipn a l)) (substrings l).
Proof. unfold substrings. apply in_flat_map. exists (skipn a l). split; [apply suffixes_skipn | apply prefixes_firstn]. Qed.

(* a row made of gaps only scores at most 0 when gap costs are not positive *)
Lemma score_cols_one_side_empty sub opn ext : opn <= 0 -> ext <= 0 -> forall r1 r2 prev,
  length r1 = length r2 -> no_double_gap r1 r2 -> (ungap r1 = [] \/ ungap r2 = []) ->
  score_cols sub opn ext r1 r2 prev <= 0.
Proof.
  intros Ho He. induction r1 as [|a t1 IH]; intros r2 prev Hl Hnd Hu; [cbn; lia|].
  destruct r2 as [|b t2]; [cbn; lia|]. cbn [length] in Hl. injection Hl as Hl.
  assert (Hnd' : no_double_gap t1 t2) by (intros k Hk; apply (Hnd (S k)); cbn [length]; lia).
  pose proof (Hnd 0%nat ltac:(cbn [length]; lia)) as H0. cbn [nth] in H0.
  cbn [score_cols]. destruct (isgap a) eqn:Ea.
  - assert (IHx := IH t2 1 Hl Hnd'). rewrite (ungap_cons_gap a t1 Ea) in Hu.
    destruct (isgap b) eqn:Eb; [exfalso; apply H0; split; apply isgap_true; assumption|].
    rewrite (ungap_cons_res b t2 Eb) in Hu. destruct Hu as [Hu|Hu]; [|discriminate].
    specialize (IHx (or_introl Hu)). destruct (prev =? 1); lia.
  - rewrite (ungap_cons_res a t1 Ea) in Hu. destruct Hu as [Hu|Hu]; [discriminate|].
    destruct (isgap b) eqn:Eb.
    + rewrite (ungap_cons_gap b t2 Eb) in Hu. assert (IHx := IH t2 2 Hl Hnd' (or_intror Hu)). destruct (prev =? 2); lia.
    + rewrite (ungap_cons_res b t2 Eb) in Hu. discriminate.
Qed.

Theorem best_enum_dominates sub opn ext s1 s2 r1 r2 st1 st2 en1 en2 :
  opn <= 0 -> ext <= 0 -> valid_alignment s1 s2 r1 r2 st1 st2 en1 en2 ->
  score_cols sub opn ext r1 r2 0 <= best_enum sub opn ext s1 s2.
Proof.
  intros Ho He [Hl Hnd [_ [_ Hu1]] [_ [_ Hu2]]]. unfold best_enum.
  destruct (ungap r1) as [|x1 u1] eqn:E1.
  { eapply Z.le_trans; [|apply fold_max_ge_init]. apply (score_cols_one_side_empty sub opn ext Ho He); auto. }
  destruct (ungap r2) as [|x2 u2] eqn:E2.
  { eapply Z.le_trans; [|apply fold_max_ge_init]. apply (score_cols_one_side_empty sub opn ext Ho He); auto. }
  apply fold_max_ge_in. apply in_flat_map. exists (x1 :: u1). split.
  { rewrite Hu1. unfold sub_string. apply substrings_window. }
  apply in_flat_map. exists (x2 :: u2). split.
  { rewrite Hu2. unfold sub_string. apply substrings_window. }
  apply in_map_iff. exists (r1, r2). split; [reflexivity|].
  rewrite <- E1, <- E2. apply aligns_complete; [exact Hl | exact Hnd | lia].
Qed.
