(* The score reported by the CODE MODEL of the local aligner (Model/SW.v fill: first row and column with their gap
   accumulators, the inner rows with the per-column accumulators maxa and the running bx, the clamping at 0, the running
   maximum over the raw scores) is the optimum of Spec/Local.v (three-matrix Gotoh), for EVERY pair of non-empty
   sequences and every scheme with open <= extend < 0.  Cell by cell: the value of a cell is max(0, best of the three
   Gotoh states), each accumulator lies between the Gotoh gap state and max(that state, open). *)
From Coq Require Import List Bool NArith ZArith Lia.
From Coq.Strings Require Import Byte.
Import ListNotations.
From GA.Base Require Import Bytes Case Align.
From GA.Gen Require Import Subst Alpha.
From GA.Spec Require Import Local.
From GA.Model Require Import SW.

Local Open Scope Z_scope.

Definition tx (c : Z * Z * Z) : Z := let '(_, x, _) := c in x.
Definition ty (c : Z * Z * Z) : Z := let '(_, _, y) := c in y.
Definition tm (c : Z * Z * Z) : Z := let '(m, _, _) := c in m.
Definition NEGT : Z * Z * Z := (NEG, NEG, NEG).

Section Arith.
Variables (o e : Z).
Hypothesis Hoe : o <= e.
Hypothesis He : e < 0.

(* entering invariant of an accumulator [acc] facing the cell it will extend from: [g] the Gotoh gap state of that
   cell, [b] its best state *)
Definition EI (g b acc : Z) : Prop :=
  g + e <= Z.max (acc + e) (Z.max 0 b + o) /\ acc + e <= Z.max (Z.max (g + e) (b + o)) o.
(* invariant of an accumulator after its step: between the Gotoh gap state and max(that, open) *)
Definition GI (G acc : Z) : Prop := G <= acc /\ acc <= Z.max G o.

Lemma acc_step g b acc : EI g b acc -> GI (Z.max (b + o) (g + e)) (Z.max (acc + e) (Z.max 0 b + o)).
Proof. unfold EI, GI. lia. Qed.

Lemma GI_EI G acc b : GI G acc -> EI G b acc.
Proof. unfold EI, GI. lia. Qed.

(* the value of a cell from the three candidates *)
Lemma cell_value M X Y ax ay : GI X ax -> GI Y ay ->
  let ms := Z.max (Z.max M ax) ay in
  Z.max 0 ms = Z.max 0 (max3 M X Y) /\ M <= ms /\ ms <= Z.max (max3 M X Y) o.
Proof. unfold GI, max3. lia. Qed.
End Arith.

(* ---- the inner rows: values only ------------------------------------------------------------------------------- *)
Section Inner.
Variable sc : scheme.
Let o := sc_open sc.
Let e := sc_extend sc.

Fixpoint inner_vals (scores prow maxa : list Z) (left diag bx : Z) : list (Z * Z) * list Z :=
  match scores, prow, maxa with
  | m :: ts, up :: tp, ma :: tm =>
      let ma2 := Z.max (ma + e) (up + o) in
      let bx2 := Z.max (bx + e) (left + o) in
      let ms := Z.max (Z.max (diag + m) ma2) bx2 in
      let v := Z.max 0 ms in
      let '(cs, mx) := inner_vals ts tp tm v up bx2 in
      ((v, ms) :: cs, ma2 :: mx)
  | _, _, _ => ([], [])
  end.

Ltac maxes := repeat match goal with
  | |- context [Z.max ?a ?b] => first [rewrite (Z.max_l a b) by lia | rewrite (Z.max_r a b) by lia]
  end.

Lemma inner_row_vals : forall scores prow maxa left diag bx,
  (let '(cells, mx) := inner_row sc scores prow maxa left diag bx in (map (fun c => (fst (fst c), snd c)) cells, mx)) =
  inner_vals scores prow maxa left diag bx.
Proof.
  induction scores as [|m ts IH]; intros prow maxa left diag bx; [reflexivity|].
  destruct prow as [|up tp]; [reflexivity|]. destruct maxa as [|ma tm]; [reflexivity|].
  cbn [inner_row inner_vals]. fold o e.
  destruct (Z.ltb_spec (ma + e) (up + o)) as [C1|C1];
  match goal with |- context [if (diag + m) <? ?q then _ else _] => destruct (Z.ltb_spec (diag + m) q) as [C2|C2] end;
  match goal with |- context [if ?p <? (if (bx + e) <? (left + o) then _ else _) then _ else _] => idtac | _ => idtac end;
  destruct (Z.ltb_spec (bx + e) (left + o)) as [C3|C3];
  match goal with |- context [if ?p <? ?q then (?q, T_LEFT) else _] => destruct (Z.ltb_spec p q) as [C4|C4] end;
  match goal with |- context [if ?p <? 0 then 0 else ?p] => destruct (Z.ltb_spec p 0) as [C5|C5] end;
  match goal with |- context [inner_row sc ts tp tm ?v ?u ?b] =>
    specialize (IH tp tm v u b); destruct (inner_row sc ts tp tm v u b) as [cells mx] end;
  cbn [map fst snd]; maxes;
  destruct (inner_vals ts tp tm _ _ _) as [cs mx'] eqn:Ev in IH |- *;
  try (rewrite Ev); injection IH as <- <-; reflexivity.
Qed.
End Inner.

(* ---- an inner row against the Gotoh row ------------------------------------------------------------------------ *)
Section Rows.
Variable sc : scheme.
Variable sub : byte -> byte -> Z.
Let o := sc_open sc.
Let e := sc_extend sc.
Hypothesis Hoe : o <= e.
Hypothesis He : e < 0.

(* code cell (value, raw score) against a Gotoh cell *)
Definition cellrel (c : Z * Z) (cT : Z * Z * Z) : Prop :=
  fst c = Z.max 0 (cellbest cT) /\ tm cT <= snd c /\ snd c <= Z.max (cellbest cT) o.

Lemma inner_vals_rel a : forall bs prow maxa prevT diagT leftT left diag bx,
  Forall2 (fun up upT => up = Z.max 0 (cellbest upT)) prow prevT ->
  Forall2 (fun ma upT => EI o e (tx upT) (cellbest upT) ma) maxa prevT ->
  length prevT = length bs ->
  diag = Z.max 0 (cellbest diagT) -> left = Z.max 0 (cellbest leftT) -> EI o e (ty leftT) (cellbest leftT) bx ->
  let rowT := gotoh_row sub o e a bs prevT diagT leftT false in
  Forall2 cellrel (fst (inner_vals sc (map (sub a) bs) prow maxa left diag bx)) rowT /\
  Forall2 (fun ma cT => GI o (tx cT) ma) (snd (inner_vals sc (map (sub a) bs) prow maxa left diag bx)) rowT.
Proof.
  induction bs as [|b bt IH]; intros prow maxa prevT diagT leftT left diag bx Hp Hm Hlen Hd Hl Hbx.
  - cbn. split; constructor.
  - destruct prevT as [|upT ptT]; [discriminate|]. inversion Hp as [|up ? tp ? Hup Hp']; subst.
    inversion Hm as [|ma ? tmx ? Hma Hm']; subst.
    cbn [map inner_vals gotoh_row tl]. fold o e.
    set (ma2 := Z.max (ma + e) (Z.max 0 (cellbest upT) + o)).
    set (bx2 := Z.max (bx + e) (Z.max 0 (cellbest leftT) + o)).
    set (M := sub a b + Z.max 0 (cellbest diagT)).
    set (X := Z.max (cellbest upT + o) (let '(_, ux, _) := upT in ux + e)).
    set (Y := Z.max (cellbest leftT + o) (let '(_, _, ly) := leftT in ly + e)).
    assert (GX : GI o X ma2).
    { pose proof (acc_step o e (tx upT) (cellbest upT) ma Hma) as G. unfold X, ma2. destruct upT as [[? ?] ?]. exact G. }
    assert (GY : GI o Y bx2).
    { pose proof (acc_step o e (ty leftT) (cellbest leftT) bx Hbx) as G. unfold Y, bx2. destruct leftT as [[? ?] ?]. exact G. }
    destruct (cell_value o e Hoe He M X Y ma2 bx2 GX GY) as [V1 [V2 V3]].
    replace (Z.max 0 (cellbest diagT) + sub a b) with M by (unfold M; lia).
    set (ms := Z.max (Z.max M ma2) bx2) in *.
    specialize (IH tp tmx ptT upT (M, X, Y) (Z.max 0 ms) (Z.max 0 (cellbest upT)) bx2 Hp' Hm' ltac:(cbn in Hlen; lia) eq_refl).
    assert (Hc : cellbest (M, X, Y) = max3 M X Y) by reflexivity.
    specialize (IH ltac:(rewrite Hc; exact V1) (GI_EI o e He (ty (M, X, Y)) bx2 (cellbest (M, X, Y)) GY)).
    destruct (inner_vals sc (map (sub a) bt) tp tmx (Z.max 0 ms) (Z.max 0 (cellbest upT)) bx2) as [cs mx] eqn:Ev.
    cbn [fst snd] in *. destruct IH as [I1 I2]. split.
    + constructor; [|exact I1]. unfold cellrel. cbn [fst snd tm]. rewrite Hc. repeat split; [exact V1 | exact V2 | exact V3].
    + constructor; [exact GX | exact I2].
Qed.
End Rows.

(* ---- running maxima --------------------------------------------------------------------------------------------- *)
Definition bval (b : Z * Z * Z) : Z := fst (fst b).

Lemma upd_max_val b v i j : bval (upd_max b v i j) = Z.max (bval b) v.
Proof. destruct b as [[mx mi] mj]. unfold upd_max, bval. destruct (Z.ltb_spec mx v); cbn [fst]; lia. Qed.

Lemma fold_best_row {A} (g : A -> Z) i : forall (l : list A) b k,
  bval (fst (fold_left (fun (st : (Z * Z * Z) * Z) c => (upd_max (fst st) (g c) i (snd st), snd st + 1)) l (b, k))) =
  fold_left Z.max (map g l) (bval b).
Proof.
  induction l as [|c l IH]; intros b k; [reflexivity|]. cbn [fold_left map fst snd]. rewrite IH, upd_max_val. reflexivity.
Qed.

Lemma fold_best_col {A} (g : A -> Z) : forall (l : list A) b k,
  bval (fst (fold_left (fun (st : (Z * Z * Z) * Z) c => (upd_max (fst st) (g c) (snd st) 0, snd st + 1)) l (b, k))) =
  fold_left Z.max (map g l) (bval b).
Proof.
  induction l as [|c l IH]; intros b k; [reflexivity|]. cbn [fold_left map fst snd]. rewrite IH, upd_max_val. reflexivity.
Qed.

Lemma fold_max_ge l : forall b, b <= fold_left Z.max l b.
Proof. induction l as [|x l IH]; intros b; [cbn; lia|]. cbn [fold_left]. specialize (IH (Z.max b x)). lia. Qed.

Lemma fold_max_in l : forall b x, In x l -> x <= fold_left Z.max l b.
Proof.
  induction l as [|y l IH]; intros b x H; [destruct H|]. cbn [fold_left]. destruct H as [->|H].
  - pose proof (fold_max_ge l (Z.max b x)). lia.
  - apply IH. exact H.
Qed.

Lemma fold_max_le l : forall b B, b <= B -> (forall x, In x l -> x <= B) -> fold_left Z.max l b <= B.
Proof.
  induction l as [|y l IH]; intros b B Hb Hl; [exact Hb|]. cbn [fold_left]. apply IH.
  - specialize (Hl y (or_introl eq_refl)). lia.
  - intros x Hx. apply Hl. right. exact Hx.
Qed.

Lemma fold_tm_eq (row : list (Z * Z * Z)) b :
  fold_left (fun acc c => let '(m, _, _) := c in Z.max acc m) row b = fold_left Z.max (map tm row) b.
Proof. revert b. induction row as [|[[m x] y] r IH]; intros b; [reflexivity|]. cbn [fold_left map tm]. apply IH. Qed.

(* ---- borders ----------------------------------------------------------------------------------------------------- *)
Section Border.
Variable sc : scheme.
Variable sub : byte -> byte -> Z.
Let o := sc_open sc.
Let e := sc_extend sc.
Hypothesis Hoe : o <= e.
Hypothesis He : e < 0.
Hypothesis HNEG : NEG <= o.

Lemma NEG_neg : NEG < 0. Proof. reflexivity. Qed.

Lemma gap_acc_some acc pv : gap_acc sc (Some acc) pv = Z.max (acc + e) (pv + o). Proof. reflexivity. Qed.
Lemma gap_acc_none pv : gap_acc sc None pv = gap_acc sc (Some (pv + o - e)) pv.
Proof. cbn [gap_acc]. fold o e. lia. Qed.

(* the value chosen on the border: max(0, m, fnew) *)
Lemma border_value (fnew m : Z) :
  fst (if (fnew <? m) && (0 <? m) then (m, T_DIAG) else if 0 <? fnew then (fnew, T_LEFT) else (0, T_DIAG)) = Z.max 0 (Z.max m fnew).
Proof. destruct (Z.ltb_spec fnew m), (Z.ltb_spec 0 m), (Z.ltb_spec 0 fnew); cbn [andb fst]; lia. Qed.
Lemma border_value_up (fnew m : Z) :
  fst (if (fnew <? m) && (0 <? m) then (m, T_DIAG) else if 0 <? fnew then (fnew, T_UP) else (0, T_DIAG)) = Z.max 0 (Z.max m fnew).
Proof. destruct (Z.ltb_spec fnew m), (Z.ltb_spec 0 m), (Z.ltb_spec 0 fnew); cbn [andb fst]; lia. Qed.

(* first row, from the second cell on *)
Lemma first_row_tail a : forall bs pv acc j leftT diagT, j <> O ->
  pv = Z.max 0 (cellbest leftT) -> EI o e (ty leftT) (cellbest leftT) acc -> cellbest diagT <= 0 ->
  Forall2 (fun c cT => fst (fst c) = Z.max 0 (cellbest cT) /\ snd c = fst (fst c) + o /\ tx cT = NEG)
          (first_row sc (map (sub a) bs) pv (Some acc) j) (gotoh_row sub o e a bs [] diagT leftT true).
Proof.
  induction bs as [|b bt IH]; intros pv acc j leftT diagT Hj Hpv Hacc Hd; [constructor|].
  cbn [map first_row gotoh_row tl]. destruct (Nat.eqb_spec j 0) as [?|_]; [congruence|].
  rewrite gap_acc_some. fold o e.
  set (fnew := Z.max (acc + e) (pv + o)).
  set (Y := Z.max (cellbest leftT + o) (let '(_, _, ly) := leftT in ly + e)).
  assert (GY : GI o Y fnew).
  { pose proof (acc_step o e (ty leftT) (cellbest leftT) acc Hacc) as G. unfold Y, fnew. rewrite Hpv. destruct leftT as [[? ?] ?]. exact G. }
  replace (Z.max 0 (cellbest diagT)) with 0 by lia. rewrite Z.add_0_r.
  set (m := sub a b).
  pose proof (border_value fnew m) as Hv.
  destruct (if (fnew <? m) && (0 <? m) then (m, T_DIAG) else if 0 <? fnew then (fnew, T_LEFT) else (0, T_DIAG)) as [v tr] eqn:Ec.
  cbn [fst] in Hv.
  assert (Hcb : Z.max 0 (cellbest (m, NEG, Y)) = v).
  { rewrite Hv. unfold cellbest, max3. destruct GY as [G1 G2]. pose proof NEG_neg. lia. }
  constructor.
  - cbn [fst snd tx]. split; [symmetry; exact Hcb | split; reflexivity].
  - apply IH; [discriminate | symmetry; exact Hcb | apply (GI_EI o e He); exact GY | unfold NEGT, cellbest, max3; pose proof NEG_neg; cbn; lia].
Qed.

Lemma first_row_rel a bs : bs <> [] ->
  Forall2 (fun c cT => fst (fst c) = Z.max 0 (cellbest cT) /\ snd c = fst (fst c) + o /\ tx cT = NEG)
          (first_row sc (map (sub a) bs) 0 None 0) (gotoh_row sub o e a bs [] NEGT NEGT true).
Proof.
  intros Hne. destruct bs as [|b bt]; [congruence|]. cbn [map first_row gotoh_row tl Nat.eqb]. fold o e.
  set (m := sub a b).
  pose proof (border_value 0 m) as Hv.
  destruct (if (0 <? m) && (0 <? m) then (m, T_DIAG) else if 0 <? 0 then (0, T_LEFT) else (0, T_DIAG)) as [v tr] eqn:Ec.
  cbn [fst] in Hv.
  change (cellbest NEGT) with NEG.
  set (c0 := (m + Z.max 0 NEG, NEG, Z.max (NEG + o) (NEG + e))).
  assert (Hcb : Z.max 0 (cellbest c0) = v).
  { rewrite Hv. unfold c0, cellbest, max3. pose proof NEG_neg. pose proof Hoe as Q1. pose proof He as Q2. clearbody m. subst o e. lia. }
  constructor.
  - cbn [fst snd tx]. split; [symmetry; exact Hcb | split; reflexivity].
  - destruct bt as [|b1 bt']; [constructor|].
    assert (E : first_row sc (map (sub a) (b1 :: bt')) v None 1 = first_row sc (map (sub a) (b1 :: bt')) v (Some (v + o - e)) 1).
    { cbn [map first_row Nat.eqb]. rewrite gap_acc_none. reflexivity. }
    rewrite E. apply first_row_tail; [discriminate | symmetry; exact Hcb | | unfold cellbest, max3; pose proof NEG_neg; lia].
    unfold EI, c0, ty, cellbest, max3. pose proof NEG_neg. pose proof Hoe as Q1. pose proof He as Q2. pose proof HNEG as Q3. clearbody m. subst o e.
    change (let '(_, _, ly) := NEGT in ly + sc_extend sc) with (NEG + sc_extend sc). split; lia.
Qed.
(* first column: the Gotoh cells of column 0, row after row *)
Definition col0cell (s : Z) (upT : option (Z * Z * Z)) : Z * Z * Z :=
  (s + Z.max 0 NEG,
   match upT with None => NEG | Some u => Z.max (cellbest u + o) (tx u + e) end,
   Z.max (NEG + o) (NEG + e)).
Fixpoint col0_from (upT : option (Z * Z * Z)) (scores : list Z) : list (Z * Z * Z) :=
  match scores with
  | [] => []
  | s :: t => let c := col0cell s upT in c :: col0_from (Some c) t
  end.

Lemma first_col_tail : forall scores pv acc i upT, i <> O ->
  pv = Z.max 0 (cellbest upT) -> EI o e (tx upT) (cellbest upT) acc ->
  Forall2 (fun c cT => fst c = Z.max 0 (cellbest cT)) (first_col sc scores pv (Some acc) i) (col0_from (Some upT) scores).
Proof.
  induction scores as [|m t IH]; intros pv acc i upT Hi Hpv Hacc; [constructor|].
  cbn [first_col col0_from]. destruct (Nat.eqb_spec i 0) as [?|_]; [congruence|].
  rewrite gap_acc_some. fold o e.
  set (fnew := Z.max (acc + e) (pv + o)).
  set (X := Z.max (cellbest upT + o) (tx upT + e)).
  assert (GX : GI o X fnew).
  { pose proof (acc_step o e (tx upT) (cellbest upT) acc Hacc) as G. unfold X, fnew. rewrite Hpv. exact G. }
  pose proof (border_value_up fnew m) as Hv.
  destruct (if (fnew <? m) && (0 <? m) then (m, T_DIAG) else if 0 <? fnew then (fnew, T_UP) else (0, T_DIAG)) as [v tr] eqn:Ec.
  cbn [fst] in Hv.
  assert (Hcb : Z.max 0 (cellbest (col0cell m (Some upT))) = v).
  { rewrite Hv. unfold col0cell. change (Z.max (cellbest upT + o) (tx upT + e)) with X. unfold cellbest, max3.
    destruct GX as [G1 G2]. pose proof NEG_neg. pose proof Hoe as Q1. pose proof He as Q2. clearbody X fnew. unfold o, e in *. lia. }
  constructor; [cbn [fst]; symmetry; exact Hcb|].
  apply IH; [discriminate | symmetry; exact Hcb |].
  apply (GI_EI o e He). unfold col0cell, tx. exact GX.
Qed.

Lemma first_col_rel scores :
  Forall2 (fun c cT => fst c = Z.max 0 (cellbest cT)) (first_col sc scores 0 None 0) (col0_from None scores).
Proof.
  destruct scores as [|m t]; [constructor|]. cbn [first_col col0_from Nat.eqb].
  pose proof (border_value_up 0 m) as Hv.
  destruct (if (0 <? m) && (0 <? m) then (m, T_DIAG) else if 0 <? 0 then (0, T_UP) else (0, T_DIAG)) as [v tr] eqn:Ec.
  cbn [fst] in Hv.
  assert (Hcb : Z.max 0 (cellbest (col0cell m None)) = v).
  { rewrite Hv. unfold col0cell, cellbest, max3. pose proof NEG_neg. pose proof Hoe as Q1. pose proof He as Q2. unfold o, e in *. lia. }
  constructor; [cbn [fst]; symmetry; exact Hcb|].
  destruct t as [|m1 t']; [constructor|].
  assert (E : first_col sc (m1 :: t') v None 1 = first_col sc (m1 :: t') v (Some (v + o - e)) 1).
  { cbn [first_col Nat.eqb]. rewrite gap_acc_none. reflexivity. }
  rewrite E. apply first_col_tail; [discriminate | symmetry; exact Hcb |].
  unfold EI, col0cell, tx, cellbest, max3. unfold col0cell, cellbest, max3 in Hcb.
  pose proof NEG_neg. pose proof Hoe as Q1. pose proof He as Q2. pose proof HNEG as Q3. unfold o, e in *. split; lia.
Qed.

(* the head of a Gotoh row is the column-0 cell *)
Lemma gotoh_row_head a b0 bt prevT first :
  gotoh_row sub o e a (b0 :: bt) prevT NEGT NEGT first =
  (let up := match prevT with c :: _ => c | [] => NEGT end in
   let c0 := (sub a b0 + Z.max 0 NEG, (if first then NEG else Z.max (cellbest up + o) (tx up + e)), Z.max (NEG + o) (NEG + e)) in
   c0 :: gotoh_row sub o e a bt (tl prevT) up c0 first).
Proof. cbn [gotoh_row]. destruct prevT as [|[[pm px] py] pt]; reflexivity. Qed.
End Border.

(* ---- bounds inside the Gotoh program: no state of a cell exceeds the running maximum of the match states ------------ *)
Section Bounds.
Variables (sub : byte -> byte -> Z) (o e : Z).
Hypothesis Hoe : o <= e.
Hypothesis He : e < 0.

Lemma row_bounds a first : forall bs prevT diagT leftT beta,
  0 <= beta -> (forall cT, In cT prevT -> cellbest cT <= beta /\ tx cT <= beta) ->
  cellbest leftT <= beta -> ty leftT <= beta ->
  let rowT := gotoh_row sub o e a bs prevT diagT leftT first in
  forall cT, In cT rowT -> cellbest cT <= fold_left Z.max (map tm rowT) beta /\ tx cT <= fold_left Z.max (map tm rowT) beta.
Proof.
  induction bs as [|b bt IH]; intros prevT diagT leftT beta Hb Hp Hl Hy rowT cT Hin; [destruct Hin|].
  unfold rowT in *. clear rowT. cbn [gotoh_row] in *.
  set (up := match prevT with c :: _ => c | [] => (NEG, NEG, NEG) end) in *.
  assert (Hup : cellbest up <= beta /\ tx up <= beta).
  { unfold up. destruct prevT as [|c pt]; [|apply Hp; left; reflexivity]. unfold cellbest, max3, tx. pose proof NEG_neg. lia. }
  set (m := sub a b + Z.max 0 (cellbest diagT)) in *.
  set (x := if first then NEG else Z.max (cellbest up + o) (let '(_, ux, _) := up in ux + e)) in *.
  set (y := Z.max (cellbest leftT + o) (let '(_, _, ly) := leftT in ly + e)) in *.
  assert (Hx : x <= beta).
  { unfold x. destruct first; [pose proof NEG_neg; lia|]. destruct Hup as [U1 U2]. unfold tx in U2. destruct up as [[? ?] ?]. lia. }
  assert (Hyb : y <= beta).
  { unfold y. unfold ty in Hy. destruct leftT as [[? ?] ?]. lia. }
  cbn [map tm fold_left].
  pose proof (fold_max_ge (map tm (gotoh_row sub o e a bt (tl prevT) up (m, x, y) first)) (Z.max beta m)) as Hge.
  destruct Hin as [<-|Hin].
  - unfold cellbest, max3, tx. lia.
  - apply (IH (tl prevT) up (m, x, y) (Z.max beta m)); [lia | | unfold cellbest, max3; lia | unfold ty; lia | exact Hin].
    intros c Hc. destruct prevT as [|p pt]; [destruct Hc|]. destruct (Hp c (or_intror Hc)). lia.
Qed.
End Bounds.

(* ---- the rows below the first ------------------------------------------------------------------------------------- *)
Section Main.
Variables (sc : scheme) (which : Z) (posf : byte -> Z).
Let o := sc_open sc.
Let e := sc_extend sc.
Hypothesis Hoe : o <= e.
Hypothesis He : e < 0.
Hypothesis HNEG : NEG <= o.

Definition pairf (c : byte) : byte * Z := (c, posf c).
Definition subf (a b : byte) : Z := match_score sc which a b (posf a) (posf b).

Lemma scores_map a (bs : list byte) :
  map (fun x : byte * Z => match_score sc which a (fst x) (posf a) (snd x)) (map pairf bs) = map (subf a) bs.
Proof. rewrite map_map. reflexivity. Qed.

Lemma Forall2_hd {A B} (R : A -> B -> Prop) l1 l2 d1 d2 : Forall2 R l1 l2 -> l2 <> [] -> R (hd d1 l1) (hd d2 l2).
Proof. intros H Hn. destruct H; [congruence | assumption]. Qed.
Lemma Forall2_tl {A B} (R : A -> B -> Prop) l1 l2 : Forall2 R l1 l2 -> Forall2 R (tl l1) (tl l2).
Proof. intros H. destruct H; [constructor | assumption]. Qed.

Lemma Forall2_cons_iff {A B} (R : A -> B -> Prop) x l y l' : Forall2 R (x :: l) (y :: l') <-> R x y /\ Forall2 R l l'.
Proof. split; [intros H; inversion H; subst; split; assumption | intros [H1 H2]; constructor; assumption]. Qed.

Lemma Forall2_map_l {A B C} (f : A -> B) (R : B -> C -> Prop) : forall l l',
  Forall2 R (map f l) l' -> Forall2 (fun a c => R (f a) c) l l'.
Proof.
  induction l as [|a l IH]; intros l' H; destruct l' as [|c l']; cbn [map] in H; try (inversion H; fail); [constructor|].
  apply Forall2_cons_iff in H as [H1 H2]. constructor; [exact H1 | apply IH; exact H2].
Qed.
Lemma Forall2_in_l {A C} (R : A -> C -> Prop) : forall l l' a, Forall2 R l l' -> In a l -> exists c, In c l' /\ R a c.
Proof.
  induction 1 as [|x y l l' Hxy H IH]; intros Hin; [destruct Hin|]. destruct Hin as [->|Hin].
  - exists y. split; [left; reflexivity | exact Hxy].
  - destruct (IH Hin) as [c [H1 H2]]. exists c. split; [right; exact H1 | exact H2].
Qed.
Lemma Forall2_in_r {A C} (R : A -> C -> Prop) : forall l l' c, Forall2 R l l' -> In c l' -> exists a, In a l /\ R a c.
Proof.
  induction 1 as [|x y l l' Hxy H IH]; intros Hin; [destruct Hin|]. destruct Hin as [->|Hin].
  - exists x. split; [left; reflexivity | exact Hxy].
  - destruct (IH Hin) as [a [H1 H2]]. exists a. split; [right; exact H1 | exact H2].
Qed.

Lemma gotoh_row_len (sub : byte -> byte -> Z) o' e' a first : forall bs prev diag left,
  length (gotoh_row sub o' e' a bs prev diag left first) = length bs.
Proof. induction bs as [|b bt IH]; intros prev diag left; [reflexivity|]. cbn [gotoh_row length]. rewrite IH. reflexivity. Qed.

Lemma fill_rows_rel b0 (bt : list byte) : forall t1 fcol prow maxa i best prevT bestS,
  length prevT = S (length bt) ->
  Forall2 (fun v cT => v = Z.max 0 (cellbest cT)) prow prevT ->
  Forall2 (fun ma cT => EI o e (tx cT) (cellbest cT) ma) maxa (tl prevT) ->
  Forall2 (fun (c : Z * Z) cT => fst c = Z.max 0 (cellbest cT)) fcol
          (col0_from sc (Some (hd NEGT prevT)) (map (fun a => subf a b0) t1)) ->
  0 <= bestS -> bestS <= bval best -> bval best <= Z.max bestS (fold_right Z.max 0 (map fst fcol)) ->
  (forall c, In c fcol -> fst c <= bval best) ->
  (forall cT, In cT prevT -> cellbest cT <= bestS /\ tx cT <= bestS) ->
  bval (snd (fill_rows sc which (map pairf t1) (map pairf (b0 :: bt)) fcol prow maxa i best)) =
  gotoh_rows subf o e t1 (b0 :: bt) prevT false bestS.
Proof.
  induction t1 as [|a t1 IH]; intros fcol prow maxa i best prevT bestS Hlen Hprow Hmaxa Hfcol H0 Hle Hub Hfc Hpb.
  - cbn [map fill_rows gotoh_rows snd]. cbn [map col0_from] in Hfcol. inversion Hfcol; subst. cbn [map fold_right] in Hub. lia.
  - cbn [map col0_from] in Hfcol. destruct fcol as [|[v0 tr0] tc]; [inversion Hfcol|].
    apply Forall2_cons_iff in Hfcol as [Hv0 Htc]. cbn [fst] in Hv0.
    destruct prevT as [|upT ptT]; [discriminate|]. cbn [hd tl] in *.
    destruct prow as [|vup prowt]; [inversion Hprow|]. apply Forall2_cons_iff in Hprow as [Hvup Hprowt]. rewrite Hvup. clear Hvup vup.
    cbn [fill_rows pairf map tl hd fst snd]. fold (pairf a). 
    change (map (fun x : byte * Z => match_score sc which a (fst x) (posf a) (snd x)) (map pairf bt)) with
           (map (fun x : byte * Z => match_score sc which a (fst x) (posf a) (snd x)) (map pairf bt)).
    rewrite (scores_map a bt).
    set (c0 := col0cell sc (subf a b0) (Some upT)) in *.
    (* the inner row *)
    pose proof (inner_row_vals sc (map (subf a) bt) prowt maxa v0 (Z.max 0 (cellbest upT)) (v0 + sc_open sc + sc_extend sc)) as Hvals.
    destruct (inner_row sc (map (subf a) bt) prowt maxa v0 (Z.max 0 (cellbest upT)) (v0 + sc_open sc + sc_extend sc)) as [cells maxa'] eqn:Einner.
    assert (Hbx : EI o e (ty c0) (cellbest c0) (v0 + o + e)).
    { unfold EI. rewrite <- Hv0. unfold c0, col0cell, ty, cellbest, max3. unfold c0, col0cell, cellbest, max3 in Hv0.
      pose proof NEG_neg. pose proof Hoe as Q1. pose proof He as Q2. pose proof HNEG as Q3. unfold o, e in *. split; lia. }
    pose proof (inner_vals_rel sc subf Hoe He a bt prowt maxa ptT upT c0 v0 (Z.max 0 (cellbest upT)) (v0 + o + e)
                  Hprowt Hmaxa ltac:(cbn [length] in Hlen; lia) eq_refl Hv0 Hbx) as [Rc Rm].
    fold o e in Hvals. rewrite <- Hvals in Rc, Rm. cbn [fst snd] in Rc, Rm.
    (* the Gotoh row *)
    unfold o, e in *. cbn [gotoh_rows]. change (NEG, NEG, NEG) with NEGT.
    rewrite (gotoh_row_head sc subf a b0 bt (upT :: ptT) false). cbn [tl]. cbv zeta.
    change (subf a b0 + Z.max 0 NEG, Z.max (cellbest upT + sc_open sc) (tx upT + sc_extend sc), Z.max (NEG + sc_open sc) (NEG + sc_extend sc)) with c0.
    set (rowT' := gotoh_row subf (sc_open sc) (sc_extend sc) a bt ptT upT c0 false) in *.
    rewrite fold_tm_eq. cbn [map tm fold_left].
    (* bookkeeping of the two running maxima *)
    set (best' := fst (fold_left (fun (st : Z * Z * Z * Z) c => (upd_max (fst st) (snd c) i (snd st), snd st + 1)) cells (best, 1))).
    assert (Hb' : bval best' = fold_left Z.max (map snd cells) (bval best)) by (unfold best'; apply (fold_best_row (fun c : Z * Z * Z => snd c))).
    set (bestS' := fold_left Z.max (map tm rowT') (Z.max bestS (tm c0))).
    assert (Hrb : forall cT, In cT (c0 :: rowT') -> cellbest cT <= bestS' /\ tx cT <= bestS').
    { intros cT Hin.
      pose proof (row_bounds subf (sc_open sc) (sc_extend sc) Hoe He a false (b0 :: bt) (upT :: ptT) NEGT NEGT bestS H0 Hpb
                    ltac:(unfold NEGT, cellbest, max3; pose proof NEG_neg; lia) ltac:(unfold NEGT, ty; pose proof NEG_neg; lia)) as RB.
      cbv zeta in RB. rewrite (gotoh_row_head sc subf a b0 bt (upT :: ptT) false) in RB. cbn [tl] in RB. cbv zeta in RB.
      change (subf a b0 + Z.max 0 NEG, Z.max (cellbest upT + sc_open sc) (tx upT + sc_extend sc), Z.max (NEG + sc_open sc) (NEG + sc_extend sc)) with c0 in RB.
      fold rowT' in RB. cbn [map tm fold_left] in RB. apply RB. exact Hin. }
    fold best'.
    change (pairf b0 :: map pairf bt) with (map pairf (b0 :: bt)).
    match goal with |- context [fill_rows sc which ?a1 ?a2 ?a3 ?a4 ?a5 ?a6 ?a7] =>
      transitivity (bval (snd (fill_rows sc which a1 a2 a3 a4 a5 a6 a7)));
        [destruct (fill_rows sc which a1 a2 a3 a4 a5 a6 a7) as [[vals trs] bfin]; reflexivity|] end.
    apply Forall2_map_l in Rc.
    apply IH.
    + cbn [length]. unfold rowT'. rewrite gotoh_row_len. cbn [length] in Hlen. lia.
    + constructor; [exact Hv0|]. clear - Rc. induction Rc as [|c cT l lT R1 _ IHr]; [constructor|].
      cbn [map]. constructor; [exact (proj1 R1) | exact IHr].
    + cbn [tl]. clear - Rm He. induction Rm as [|ma cT l lT R _ IHr]; [constructor|].
      constructor; [apply (GI_EI (sc_open sc) (sc_extend sc) He); exact R | exact IHr].
    + cbn [hd]. exact Htc.
    + unfold bestS'. pose proof (fold_max_ge (map tm rowT') (Z.max bestS (tm c0))). lia.
    + (* bestS' <= bval best' *)
      rewrite Hb'. unfold bestS'. apply fold_max_le.
      * pose proof (fold_max_ge (map snd cells) (bval best)) as G.
        assert (tm c0 <= bval best).
        { specialize (Hfc (v0, tr0) (or_introl eq_refl)). cbn [fst] in Hfc. unfold c0, col0cell, tm, cellbest, max3 in *. lia. }
        lia.
      * intros x Hx. apply in_map_iff in Hx as [cT [<- HcT]].
        destruct (Forall2_in_r _ _ _ cT Rc HcT) as [c [Hc [_ [R2 _]]]]. cbn [snd] in R2.
        pose proof (fold_max_in (map snd cells) (bval best) (snd c) (in_map snd cells c Hc)). lia.
    + (* bval best' <= max bestS' (columns 0 still to come) *)
      rewrite Hb'. apply fold_max_le.
      * cbn [map fst fold_right] in Hub.
        assert (v0 <= bestS').
        { destruct (Hrb c0 (or_introl eq_refl)) as [B1 _]. rewrite Hv0. unfold bestS'.
          pose proof (fold_max_ge (map tm rowT') (Z.max bestS (tm c0))). lia. }
        assert (bestS <= bestS') by (unfold bestS'; pose proof (fold_max_ge (map tm rowT') (Z.max bestS (tm c0))); lia).
        lia.
      * intros x Hx. apply in_map_iff in Hx as [c [<- Hc]].
        destruct (Forall2_in_l _ _ _ c Rc Hc) as [cT [HcT [_ [_ R3]]]]. cbn [snd] in R3.
        destruct (Hrb cT (or_intror HcT)) as [B1 _].
        assert (0 <= bestS') by (unfold bestS'; pose proof (fold_max_ge (map tm rowT') (Z.max bestS (tm c0))); lia).
        pose proof Hoe. pose proof He. lia.
    + intros c Hc. rewrite Hb'. specialize (Hfc c (or_intror Hc)). pose proof (fold_max_ge (map snd cells) (bval best)). lia.
    + exact Hrb.
Qed.
Lemma fold_right_max_in l : forall x, In x l -> x <= fold_right Z.max 0 l.
Proof. induction l as [|y l IH]; intros x H; [destruct H|]. cbn [fold_right]. destruct H as [->|H]; [lia | specialize (IH x H); lia]. Qed.

(* the recorded maximum, with the pieces of the fill named *)
Lemma fill_max_form s1hd s1tl s2hd s2tl :
  f_max (fill sc which (s1hd :: s1tl) (s2hd :: s2tl)) =
  (let s1 := s1hd :: s1tl in let s2 := s2hd :: s2tl in
   let row0 := first_row sc (map (fun x => match_score sc which (fst s1hd) (fst x) (snd s1hd) (snd x)) s2) 0 None 0 in
   let fcol := first_col sc (map (fun x => match_score sc which (fst x) (fst s2hd) (snd x) (snd s2hd)) s1) 0 None 0 in
   let vals0 := map (fun x : Z * Z * Z => fst (fst x)) row0 in
   let best0 := fst (fold_left (fun (st : (Z * Z * Z) * Z) v => (upd_max (fst st) v 0 (snd st), snd st + 1)) vals0 ((0, 0, 0), 0)) in
   let best1 := fst (fold_left (fun (st : (Z * Z * Z) * Z) (c : Z * Z) => (upd_max (fst st) (fst c) (snd st) 0, snd st + 1)) fcol (best0, 0)) in
   bval (snd (fill_rows sc which s1tl s2 (tl fcol) vals0 (tl (map snd row0)) 1 best1))).
Proof.
  destruct s1hd as [c10 i10]. unfold fill. cbv zeta. cbn [fst snd].
  match goal with |- context [fill_rows ?a ?b ?c ?d ?f ?g ?h ?i ?k] =>
    destruct (fill_rows a b c d f g h i k) as [[vals trs] [[mx mi] mj]] end.
  reflexivity.
Qed.

(* the maximum recorded by the fill is the optimum of the Gotoh program *)
Theorem fill_max_optimal a0 r1 b0 bt :
  f_max (fill sc which (map pairf (a0 :: r1)) (map pairf (b0 :: bt))) = gotoh_best subf o e (a0 :: r1) (b0 :: bt).
Proof.
  change (map pairf (a0 :: r1)) with (pairf a0 :: map pairf r1). change (map pairf (b0 :: bt)) with (pairf b0 :: map pairf bt).
  rewrite fill_max_form. cbv zeta.
  change (pairf b0 :: map pairf bt) with (map pairf (b0 :: bt)). change (pairf a0 :: map pairf r1) with (map pairf (a0 :: r1)).
  assert (E1 : map (fun x : byte * Z => match_score sc which (fst (pairf a0)) (fst x) (snd (pairf a0)) (snd x)) (map pairf (b0 :: bt)) = map (subf a0) (b0 :: bt))
    by (rewrite map_map; reflexivity).
  assert (E2 : map (fun x : byte * Z => match_score sc which (fst x) (fst (pairf b0)) (snd x) (snd (pairf b0))) (map pairf (a0 :: r1)) = map (fun a => subf a b0) (a0 :: r1))
    by (rewrite map_map; reflexivity).
  rewrite E1, E2. clear E1 E2.
  unfold gotoh_best. cbn [gotoh_rows].
  set (row0 := first_row sc (map (subf a0) (b0 :: bt)) 0 None 0).
  set (fcol := first_col sc (map (fun a => subf a b0) (a0 :: r1)) 0 None 0).
  set (rowT0 := gotoh_row subf o e a0 (b0 :: bt) [] (NEG, NEG, NEG) (NEG, NEG, NEG) true).
  pose proof (first_row_rel sc subf Hoe He HNEG a0 (b0 :: bt) ltac:(discriminate)) as R0. fold row0 in R0.
  change (gotoh_row subf (sc_open sc) (sc_extend sc) a0 (b0 :: bt) [] NEGT NEGT true) with rowT0 in R0.
  pose proof (first_col_rel sc Hoe He HNEG (map (fun a => subf a b0) (a0 :: r1))) as C0. fold fcol in C0.
  cbn [map col0_from] in C0.
  assert (Hhd : hd NEGT rowT0 = col0cell sc (subf a0 b0) None) by reflexivity.
  destruct fcol as [|[f0 ftr] ftl] eqn:Ef; [inversion C0|]. apply Forall2_cons_iff in C0 as [Cf0 Cftl]. cbn [fst] in Cf0.
  set (vals0 := map (fun x : Z * Z * Z => fst (fst x)) row0).
  set (maxa0 := map snd row0).
  set (best0 := fst (fold_left (fun (st : Z * Z * Z * Z) v => (upd_max (fst st) v 0 (snd st), snd st + 1)) vals0 ((0, 0, 0), 0))).
  set (best1 := fst (fold_left (fun (st : Z * Z * Z * Z) (c : Z * Z) => (upd_max (fst st) (fst c) (snd st) 0, snd st + 1)) ((f0, ftr) :: ftl) (best0, 0))).
  assert (Hb0 : bval best0 = fold_left Z.max vals0 0).
  { unfold best0. rewrite (fold_best_row (fun v : Z => v)). rewrite map_id. reflexivity. }
  assert (Hb1 : bval best1 = fold_left Z.max (map fst ((f0, ftr) :: ftl)) (bval best0)) by (unfold best1; apply (fold_best_col (fun c : Z * Z => fst c))).
  rewrite fold_tm_eq. set (bestS0 := fold_left Z.max (map tm rowT0) 0).
  assert (Hrb : forall cT, In cT rowT0 -> cellbest cT <= bestS0 /\ tx cT <= bestS0).
  { intros cT Hin. apply (row_bounds subf o e Hoe He a0 true (b0 :: bt) [] (NEG, NEG, NEG) (NEG, NEG, NEG) 0 ltac:(lia)); try exact Hin.
    - intros c [].
    - unfold cellbest, max3. pose proof NEG_neg. lia.
    - unfold ty. pose proof NEG_neg. lia. }
  assert (Hvals : Forall2 (fun v cT => v = Z.max 0 (cellbest cT)) vals0 rowT0).
  { unfold vals0. clear - R0. induction R0 as [|c cT l lT [R1 _] _ IHr]; [constructor|]. cbn [map]. constructor; [exact R1 | exact IHr]. }
  assert (Hv_le : forall v, In v vals0 -> v <= bestS0).
  { intros v Hv. destruct (Forall2_in_l _ _ _ v Hvals Hv) as [cT [HcT ->]]. destruct (Hrb cT HcT) as [B _].
    pose proof (fold_max_ge (map tm rowT0) 0). unfold bestS0. unfold bestS0 in B. lia. }
  assert (H0S : 0 <= bestS0) by (unfold bestS0; apply fold_max_ge).
  assert (Hb0le : bval best0 <= bestS0) by (rewrite Hb0; apply fold_max_le; [exact H0S | exact Hv_le]).
  assert (Hf0 : f0 <= bestS0).
  { rewrite Cf0. rewrite <- Hhd. destruct rowT0 as [|c0 rT] eqn:Er; [discriminate|]. cbn [hd].
    destruct (Hrb c0 (or_introl eq_refl)) as [B _]. lia. }
  apply (fill_rows_rel b0 bt r1 ftl vals0 (tl maxa0) 1 best1 rowT0 bestS0).
  - unfold rowT0. rewrite gotoh_row_len. reflexivity.
  - exact Hvals.
  - unfold maxa0. clear - R0 Hoe He HNEG. apply Forall2_tl.
    induction R0 as [|c cT l lT [R1 [R2 R3]] _ IHr]; [constructor|]. cbn [map]. constructor; [|exact IHr].
    rewrite R2, R3, R1. unfold EI. pose proof NEG_neg. unfold o, e in *. split; lia.
  - rewrite Hhd. exact Cftl.
  - exact H0S.
  - (* bestS0 <= bval best1 *)
    rewrite Hb1. pose proof (fold_max_ge (map fst ((f0, ftr) :: ftl)) (bval best0)) as G1.
    assert (bestS0 <= bval best0); [|lia].
    rewrite Hb0. unfold bestS0. apply fold_max_le; [apply fold_max_ge|].
    intros x Hx. apply in_map_iff in Hx as [cT [<- HcT]].
    destruct (Forall2_in_r _ _ _ cT Hvals HcT) as [v [Hv ->]].
    pose proof (fold_max_in vals0 0 _ Hv). unfold tm, cellbest, max3 in *. destruct cT as [[m x] y]. lia.
  - (* bval best1 <= max bestS0 (first column still to come) *)
    rewrite Hb1. apply fold_max_le; [lia|]. intros x Hx. cbn [map] in Hx. destruct Hx as [<-|Hx]; [cbn [fst]; lia|].
    pose proof (fold_right_max_in (map fst ftl) x Hx). lia.
  - intros c Hc. rewrite Hb1. apply fold_max_in. cbn [map]. right. apply in_map. exact Hc.
  - exact Hrb.
Qed.
End Main.

(* ---- the aligner ------------------------------------------------------------------------------------------------- *)
Definition posf_of (which : Z) (c : byte) : Z := match char_pos which c with Some i => i | None => 0 end.

Lemma all_some_combine {A} (g : A -> option Z) : forall l p, all_some (map g l) = Some p ->
  combine l p = map (fun x => (x, match g x with Some i => i | None => 0 end)) l.
Proof.
  induction l as [|a t IH]; intros p H; cbn [map all_some] in H.
  - injection H as <-. reflexivity.
  - destruct (g a) as [y|] eqn:Ea; [|discriminate]. destruct (all_some (map g t)) as [r|] eqn:Er; [|discriminate].
    injection H as <-. cbn [combine map]. rewrite Ea. f_equal. apply IH. reflexivity.
Qed.

(* the score function the aligner uses on residues: the built-in matrix through the character index, or match/mismatch *)
Definition sub_of (sc : scheme) (which : Z) (a b : byte) : Z := match_score sc which a b (posf_of which a) (posf_of which b).

