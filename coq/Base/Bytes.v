(* Bytes, byte strings, and the string notation used by generated case files. *)
From Coq Require Import List Bool NArith ZArith Lia.
From Coq.Strings Require Import Byte.
Import ListNotations.

Definition bytes := list byte.

(* wrapper type carrying the string notation; coerces to [list byte] *)
Inductive bs := BS (l : list byte).
Definition unbs (b : bs) : list byte := match b with BS l => l end.
Coercion unbs : bs >-> list.
Definition bs_parse (l : list byte) : bs := BS l.
Definition bs_print (b : bs) : list byte := unbs b.
Declare Scope bs_scope.
Delimit Scope bs_scope with bs.
String Notation bs bs_parse bs_print : bs_scope.

Definition beqb (a b : byte) : bool := Byte.eqb a b.

Lemma beqb_eq a b : beqb a b = true <-> a = b.
Proof. unfold beqb. split; [apply Byte.byte_dec_bl | apply Byte.byte_dec_lb]. Qed.

Lemma beqb_refl a : beqb a a = true.
Proof. apply beqb_eq. reflexivity. Qed.

Lemma beqb_neq a b : beqb a b = false <-> a <> b.
Proof.
  split; intros H.
  - intros E. apply beqb_eq in E. congruence.
  - destruct (beqb a b) eqn:E; [apply beqb_eq in E; congruence | reflexivity].
Qed.

Fixpoint bytes_eqb (a b : list byte) : bool :=
  match a, b with
  | [], [] => true
  | x :: a', y :: b' => beqb x y && bytes_eqb a' b'
  | _, _ => false
  end.

Lemma bytes_eqb_eq a b : bytes_eqb a b = true <-> a = b.
Proof.
  revert b; induction a as [|x a IH]; intros [|y b]; simpl; split; intros H; try congruence; try reflexivity.
  - apply andb_true_iff in H as [H1 H2]. apply beqb_eq in H1. apply IH in H2. congruence.
  - inversion H; subst. rewrite beqb_refl. simpl. apply IH. reflexivity.
Qed.

Lemma bytes_eqb_refl a : bytes_eqb a a = true.
Proof. apply bytes_eqb_eq; reflexivity. Qed.

Fixpoint list_eqb {A} (eqb : A -> A -> bool) (a b : list A) : bool :=
  match a, b with
  | [], [] => true
  | x :: a', y :: b' => eqb x y && list_eqb eqb a' b'
  | _, _ => false
  end.

Lemma list_eqb_eq {A} (eqb : A -> A -> bool) :
  (forall x y, eqb x y = true <-> x = y) -> forall a b, list_eqb eqb a b = true <-> a = b.
Proof.
  intros Heq a; induction a as [|x a IH]; intros [|y b]; simpl; split; intros H; try congruence; try reflexivity.
  - apply andb_true_iff in H as [H1 H2]. apply Heq in H1. apply IH in H2. congruence.
  - inversion H; subst. apply andb_true_iff; split; [apply Heq; reflexivity | apply IH; reflexivity].
Qed.

Definition byte_to_Z (b : byte) : Z := Z.of_N (Byte.to_N b).
Definition byte_of_Z (z : Z) : byte :=
  match Byte.of_N (Z.to_N z) with Some b => b | None => x00 end.

(* every byte, in order: used for finite sweeps *)
Definition all_bytes : list byte :=
  map (fun n => match Byte.of_N (N.of_nat n) with Some b => b | None => x00 end) (seq 0 256).

Lemma all_bytes_complete : forall b, In b all_bytes.
Proof.
  intros b. unfold all_bytes. apply in_map_iff.
  exists (N.to_nat (Byte.to_N b)). split.
  - rewrite N2Nat.id, Byte.of_to_N. reflexivity.
  - apply in_seq. pose proof (Byte.to_N_bounded b). lia.
Qed.

Lemma forall_bytes (P : byte -> bool) :
  forallb P all_bytes = true -> forall b, P b = true.
Proof. intros H b. rewrite forallb_forall in H. apply H. apply all_bytes_complete. Qed.

Definition is_ascii (b : byte) : bool := N.ltb (Byte.to_N b) 128.

(* frequently used bytes *)
Definition GAPb : byte := x2d.   (* '-' *)
Definition POINTb : byte := x2e. (* '.' *)
Definition STARb : byte := x2a.  (* '*' *)
Definition NLb : byte := x0a.
Definition CRb : byte := x0d.
Definition SPb : byte := x20.
Definition TABb : byte := x09.
Definition NULb : byte := x00.

(* lookup in an association list keyed by bytes *)
Fixpoint bassoc {A} (k : byte) (l : list (byte * A)) : option A :=
  match l with
  | [] => None
  | (k', v) :: t => if beqb k k' then Some v else bassoc k t
  end.

Fixpoint lassoc {A} (k : list byte) (l : list (list byte * A)) : option A :=
  match l with
  | [] => None
  | (k', v) :: t => if bytes_eqb k k' then Some v else lassoc k t
  end.
