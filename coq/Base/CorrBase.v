(* Shared plumbing of the correspondence checks: every Corr/Cxx.v defines a
   [case] type, [model_ok] (the model reproduces the implementation's recorded
   observables) and [spec_ok] (the recorded observables satisfy the property),
   and exports [failing := failing_gen model_ok spec_ok]. *)
From Coq Require Import List Bool.
Import ListNotations.

Fixpoint failing_gen {C} (model_ok spec_ok : C -> bool) (start : nat) (cs : list C)
  : list (nat * (bool * bool)) :=
  match cs with
  | [] => []
  | c :: t =>
      let m := model_ok c in
      let s := spec_ok c in
      if m && s then failing_gen model_ok spec_ok (S start) t
      else (start, (m, s)) :: failing_gen model_ok spec_ok (S start) t
  end.
