(* Shared plumbing of the correspondence checks: every Corr/Cxx.v defines a
   [case] type, [model_ok] (the model reproduces the implementation's recorded
   observables) and [spec_ok] (the recorded observables satisfy the property),
   and exports [failing := failing_gen model_ok spec_ok]. *)
From Coq Require Import List Bool.
Import ListNotations.

Fixpoint failing_gen {C} (model_ok spec_ok : C -> bool) (start : nat) (cs : list C)
  : list (nat * (bool * bool)) :=
  match cs with
  | [] => []
  | c :: t =>
      let m := model_ok c in
      let s := spec_ok c in
      if m && s then failing_gen model_ok spec_ok (S start) t
      else (start, (m, s)) :: failing_gen model_ok spec_ok (S start) t
  end.

(* [spec_check] returns None when the case is outside the property's
   quantifier (nothing is claimed), Some b when it was judged. *)
Definition ok_of (o : option bool) : bool := match o with Some b => b | None => true end.
Fixpoint count_judged_gen {C} (spec_check : C -> option bool) (cs : list C) : nat :=
  match cs with
  | [] => 0
  | c :: t => (match spec_check c with Some _ => 1 | None => 0 end) + count_judged_gen spec_check t
  end.
