(* Shared vocabulary for alignment models: an alignment's observable content is
   a list of rows (name, residues); Length() is the cached length, -1 when
   there is no row (align.go NewAlign / Clear). *)
From Coq Require Import List Bool NArith ZArith Lia.
From Coq.Strings Require Import Byte.
Import ListNotations.
From GA.Base Require Import Bytes.

Notation row := (list byte * list byte)%type (only parsing).
Definition rows := list (list byte * list byte).

Definition alen (rs : rows) : Z :=
  match rs with [] => (-1)%Z | r :: _ => Z.of_nat (length (snd r)) end.

Definition rectangularb (rs : rows) : bool :=
  match rs with
  | [] => true
  | r :: t => forallb (fun r' => Nat.eqb (length (snd r')) (length (snd r))) t
  end.

Definition rectangular (rs : rows) : Prop :=
  forall r r', In r rs -> In r' rs -> length (snd r) = length (snd r').

Definition width (rs : rows) : nat := match rs with [] => 0 | r :: _ => length (snd r) end.

Lemma rectangularb_width rs : rectangularb rs = true -> forall r, In r rs -> length (snd r) = width rs.
Proof.
  destruct rs as [|r0 t]; simpl; intros H r Hr; [contradiction|].
  destruct Hr as [->|Hr]; [reflexivity|].
  rewrite forallb_forall in H. apply Nat.eqb_eq. apply H. exact Hr.
Qed.

Fixpoint mem_name (n : list byte) (l : list (list byte)) : bool :=
  match l with [] => false | x :: t => bytes_eqb x n || mem_name n t end.
Fixpoint nodup_names (l : list (list byte)) : bool :=
  match l with [] => true | x :: t => negb (mem_name x t) && nodup_names t end.

Lemma mem_name_In n l : mem_name n l = true <-> In n l.
Proof.
  induction l as [|x t IH]; simpl; [split; [discriminate|tauto]|].
  rewrite orb_true_iff, IH, bytes_eqb_eq. tauto.
Qed.

Lemma nodup_names_NoDup l : nodup_names l = true <-> NoDup l.
Proof.
  induction l as [|x t IH]; simpl.
  - split; [constructor|reflexivity].
  - rewrite andb_true_iff, negb_true_iff, IH. split.
    + intros [H1 H2]. constructor; [|exact H2]. intros Hin. apply mem_name_In in Hin. congruence.
    + intros H. inversion H; subst. split; [|assumption].
      destruct (mem_name x t) eqn:E; [|reflexivity]. apply mem_name_In in E. contradiction.
Qed.

Definition names (rs : rows) : list (list byte) := map fst rs.

(* by-name lookup: first row carrying the name (= the name index when names are distinct) *)
Definition get_seq (n : list byte) (rs : rows) : option (list byte) := lassoc n rs.

Definition row_eqb (a b : list byte * list byte) : bool :=
  bytes_eqb (fst a) (fst b) && bytes_eqb (snd a) (snd b).
Definition rows_eqb : rows -> rows -> bool := list_eqb row_eqb.

Lemma row_eqb_eq a b : row_eqb a b = true <-> a = b.
Proof.
  destruct a as [a1 a2], b as [b1 b2]. unfold row_eqb. simpl.
  rewrite andb_true_iff, !bytes_eqb_eq. split; [intros [-> ->]; reflexivity | intros H; inversion H; auto].
Qed.

Lemma rows_eqb_eq a b : rows_eqb a b = true <-> a = b.
Proof. apply list_eqb_eq. apply row_eqb_eq. Qed.

Definition column (rs : rows) (i : nat) : list byte := map (fun r => nth i (snd r) x2d) rs.

Definition ungapb (s : list byte) : list byte := filter (fun b => negb (beqb b x2d)) s.

Definition Zlist_eqb : list Z -> list Z -> bool := list_eqb Z.eqb.
Lemma Zlist_eqb_eq a b : Zlist_eqb a b = true <-> a = b.
Proof. apply list_eqb_eq. intros x y. apply Z.eqb_eq. Qed.
