(* Decimal printing as done by fmt's %d on non-negative ints, and %04d. *)
From Coq Require Import List Bool NArith ZArith Lia.
From Coq.Strings Require Import Byte.
Import ListNotations.
From GA.Base Require Import Bytes.

Definition digit_of_N (d : N) : byte :=
  match Byte.of_N (48 + d) with Some b => b | None => x30 end.

Fixpoint dec_digits (fuel : nat) (n : N) (acc : list byte) : list byte :=
  match fuel with
  | O => acc
  | S f =>
      let acc' := digit_of_N (N.modulo n 10) :: acc in
      let q := N.div n 10 in
      if N.eqb q 0 then acc' else dec_digits f q acc'
  end.

(* number of binary digits + 1 bounds the number of decimal digits *)
Definition dec_of_N (n : N) : list byte := dec_digits (S (N.to_nat (N.log2 n))) n [].
Definition dec_of_nat (n : nat) : list byte := dec_of_N (N.of_nat n).
Definition dec_of_Z (z : Z) : list byte :=
  if Z.ltb z 0 then x2d :: dec_of_N (Z.to_N (- z)) else dec_of_N (Z.to_N z).

(* %04d for a non-negative number: zero-padded to width 4, never truncated *)
Definition pad4 (n : N) : list byte :=
  let d := dec_of_N n in repeat x30 (4 - length d) ++ d.

Example dec_examples :
  dec_of_N 0 = [x30] /\ dec_of_N 7 = [x37] /\ dec_of_N 10 = [x31; x30] /\
  dec_of_N 12345 = [x31; x32; x33; x34; x35] /\ pad4 7 = [x30; x30; x30; x37] /\
  pad4 12345 = [x31; x32; x33; x34; x35] /\ dec_of_Z (-42) = [x2d; x34; x32].
Proof. repeat split; vm_compute; reflexivity. Qed.
