(* Letter case: Go's uint8(unicode.ToUpper(rune(b))) / ToLower on bytes, as
   dumped by the translator into Gen/CaseTables.v. *)
From Coq Require Import List Bool NArith ZArith Lia.
From Coq.Strings Require Import Byte.
Import ListNotations.
From GA.Base Require Import Bytes.
From GA.Gen Require Import CaseTables.

Definition to_upper (b : byte) : byte := nth (N.to_nat (Byte.to_N b)) to_upper_tbl b.
Definition to_lower (b : byte) : byte := nth (N.to_nat (Byte.to_N b)) to_lower_tbl b.

Definition is_upper_letter (b : byte) : bool := N.leb 65 (Byte.to_N b) && N.leb (Byte.to_N b) 90.
Definition is_lower_letter (b : byte) : bool := N.leb 97 (Byte.to_N b) && N.leb (Byte.to_N b) 122.
Definition is_letter (b : byte) : bool := is_upper_letter b || is_lower_letter b.

(* ASCII reference semantics *)
Definition ascii_upper (b : byte) : byte :=
  if is_lower_letter b then byte_of_Z (byte_to_Z b - 32) else b.
Definition ascii_lower (b : byte) : byte :=
  if is_upper_letter b then byte_of_Z (byte_to_Z b + 32) else b.
