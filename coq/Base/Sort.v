(* Bytewise lexicographic order on byte strings (= Go string comparison,
   sort.Strings, go-radix Walk order) and insertion sort. *)
From Coq Require Import List Bool NArith ZArith Lia Sorted Permutation.
From Coq.Strings Require Import Byte.
Import ListNotations.
From GA.Base Require Import Bytes.

Definition byte_leb (a b : byte) : bool := N.leb (Byte.to_N a) (Byte.to_N b).
Definition byte_ltb (a b : byte) : bool := N.ltb (Byte.to_N a) (Byte.to_N b).

Fixpoint lex_leb (a b : list byte) : bool :=
  match a, b with
  | [], _ => true
  | _ :: _, [] => false
  | x :: a', y :: b' => if byte_ltb x y then true else if byte_ltb y x then false else lex_leb a' b'
  end.

Fixpoint insert (x : list byte) (l : list (list byte)) : list (list byte) :=
  match l with
  | [] => [x]
  | y :: t => if lex_leb x y then x :: y :: t else y :: insert x t
  end.

Fixpoint isort (l : list (list byte)) : list (list byte) :=
  match l with [] => [] | x :: t => insert x (isort t) end.

Lemma insert_perm x l : Permutation (x :: l) (insert x l).
Proof.
  induction l as [|y t IH]; simpl; [constructor; constructor|].
  destruct (lex_leb x y); [apply Permutation_refl|].
  eapply perm_trans; [apply perm_swap|]. constructor. exact IH.
Qed.

Lemma isort_perm l : Permutation l (isort l).
Proof.
  induction l as [|x t IH]; simpl; [constructor|].
  eapply perm_trans; [|apply insert_perm]. constructor. exact IH.
Qed.

Lemma byte_to_N_inj a b : Byte.to_N a = Byte.to_N b -> a = b.
Proof.
  intros H. assert (Some a = Some b) as E by (rewrite <- !Byte.of_to_N; rewrite H; reflexivity).
  inversion E. reflexivity.
Qed.

Lemma lex_leb_total a b : lex_leb a b = true \/ lex_leb b a = true.
Proof.
  revert b. induction a as [|x a IH]; intros [|y b]; simpl; auto.
  unfold byte_ltb. destruct (N.ltb_spec (Byte.to_N x) (Byte.to_N y)); auto.
  destruct (N.ltb_spec (Byte.to_N y) (Byte.to_N x)); auto.
Qed.

Lemma lex_leb_trans a b c : lex_leb a b = true -> lex_leb b c = true -> lex_leb a c = true.
Proof.
  revert b c. induction a as [|x a IH]; intros [|y b] [|z c]; simpl; auto; try discriminate.
  unfold byte_ltb.
  destruct (N.ltb_spec (Byte.to_N x) (Byte.to_N y)); destruct (N.ltb_spec (Byte.to_N y) (Byte.to_N z));
    destruct (N.ltb_spec (Byte.to_N x) (Byte.to_N z)); auto; try lia;
    destruct (N.ltb_spec (Byte.to_N y) (Byte.to_N x)); destruct (N.ltb_spec (Byte.to_N z) (Byte.to_N y));
    destruct (N.ltb_spec (Byte.to_N z) (Byte.to_N x)); auto; try lia; try discriminate.
  apply IH.
Qed.

Lemma lex_leb_antisym a b : lex_leb a b = true -> lex_leb b a = true -> a = b.
Proof.
  revert b. induction a as [|x a IH]; intros [|y b]; simpl; auto; try discriminate.
  unfold byte_ltb.
  destruct (N.ltb_spec (Byte.to_N x) (Byte.to_N y)); destruct (N.ltb_spec (Byte.to_N y) (Byte.to_N x));
    try lia; try discriminate.
  intros H1 H2. f_equal; [apply byte_to_N_inj; lia | apply IH; assumption].
Qed.

Definition lex_le (a b : list byte) : Prop := lex_leb a b = true.

Lemma insert_sorted x l : Sorted lex_le l -> Sorted lex_le (insert x l).
Proof.
  induction 1 as [|y t Hs IH Hhd]; simpl; [repeat constructor|].
  destruct (lex_leb x y) eqn:E.
  - constructor; [constructor; assumption|]. constructor. exact E.
  - constructor; [exact IH|].
    assert (Hyx : lex_le y x) by (destruct (lex_leb_total x y) as [H|H]; [congruence | exact H]).
    destruct t as [|z t']; simpl; [constructor; exact Hyx|].
    destruct (lex_leb x z); constructor; [exact Hyx|]. inversion Hhd; assumption.
Qed.

Lemma isort_sorted l : Sorted lex_le (isort l).
Proof. induction l as [|x t IH]; simpl; [constructor | apply insert_sorted; exact IH]. Qed.
