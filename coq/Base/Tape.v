(* Go math/rand derived draws (Int31n, Int63n, Intn, Perm, Float64) over a raw tape of
   Int63 values: the PRNG itself is not modelled, every randomised operation is a
   function of the tape.  Validated against rand.Seed + rand.Intn/Perm/Float64. *)
From Coq Require Import List ZArith Lia.
Import ListNotations.
Open Scope Z_scope.

(* raw tape of Int63 values; every draw returns (value, remaining tape) or None when the tape is exhausted *)
Definition draw A := list Z -> option (A * list Z).

Definition int63 : draw Z := fun t => match t with [] => None | v :: r => Some (v, r) end.
Definition int31 : draw Z := fun t => match int63 t with Some (v, r) => Some (Z.shiftr v 32, r) | None => None end.

Definition is_pow2 (n : Z) : bool := Z.eqb (Z.land n (n - 1)) 0.

(* rejection loop: structurally recursive on the tape itself *)
Fixpoint reject31 (mx n : Z) (t : list Z) : option (Z * list Z) :=
  match t with
  | [] => None
  | v :: r => let v31 := Z.shiftr v 32 in
              if Z.leb v31 mx then Some (v31 mod n, r) else reject31 mx n r
  end.

Definition int31n (n : Z) : draw Z := fun t =>
  if is_pow2 n then match int31 t with Some (v, r) => Some (Z.land v (n - 1), r) | None => None end
  else reject31 (2^31 - 1 - (2^31 mod n)) n t.

Fixpoint reject63 (mx n : Z) (t : list Z) : option (Z * list Z) :=
  match t with
  | [] => None
  | v :: r => if Z.leb v mx then Some (v mod n, r) else reject63 mx n r
  end.
Definition int63n (n : Z) : draw Z := fun t =>
  if is_pow2 n then match int63 t with Some (v, r) => Some (Z.land v (n - 1), r) | None => None end
  else reject63 (2^63 - 1 - (2^63 mod n)) n t.

Definition intn (n : Z) : draw Z := fun t => if Z.leb n (2^31 - 1) then int31n n t else int63n n t.

(* Perm: m[i] = m[j]; m[j] = i with j = Intn(i+1) *)
Fixpoint upd (l : list Z) (k : nat) (x : Z) : list Z :=
  match l, k with [], _ => [] | _ :: t, O => x :: t | h :: t, S k' => h :: upd t k' x end.
Fixpoint perm_loop (fuel : nat) (i : Z) (m : list Z) (t : list Z) : option (list Z * list Z) :=
  match fuel with
  | O => Some (m, t)
  | S f => match intn (i + 1) t with
           | None => None
           | Some (j, r) =>
               let mj := nth (Z.to_nat j) m 0 in
               let m1 := upd m (Z.to_nat i) mj in
               let m2 := upd m1 (Z.to_nat j) i in
               perm_loop f (i + 1) m2 r
           end
  end.
Definition perm (n : nat) : draw (list Z) := perm_loop n 0 (repeat 0 n).

(* Float64 (Go 1.2x): float64(Int63())/2^63, resample when it rounds to 1.
   int -> float64 conversion = round to nearest even on 53 significant bits. *)
Definition round53 (v : Z) : Z :=
  if Z.ltb v (2^53) then v else
  let sh := Z.log2 v - 52 in           (* number of low bits to drop *)
  let q := Z.shiftr v sh in
  let rem := v - Z.shiftl q sh in
  let half := Z.shiftl 1 (sh - 1) in
  let q' := if Z.ltb half rem then q + 1
            else if Z.eqb rem half then (if Z.odd q then q + 1 else q) else q in
  Z.shiftl q' sh.
Fixpoint float64 (t : list Z) : option ((Z * Z) * list Z) :=   (* numerator / 2^63 as a pair *)
  match t with
  | [] => None
  | v :: r => let f := round53 v in if Z.eqb f (2^63) then float64 r else Some ((f, 2^63), r)
  end.

(* run a list of intn requests *)
Fixpoint run_intn (ns : list Z) (t : list Z) : option (list Z * list Z) :=
  match ns with
  | [] => Some ([], t)
  | n :: ns' => match intn n t with None => None | Some (v, r) =>
                 match run_intn ns' r with None => None | Some (vs, r') => Some (v :: vs, r') end end
  end.
Fixpoint run_f64 (k : nat) (t : list Z) : option (list (Z*Z) * list Z) :=
  match k with O => Some ([], t) | S k' =>
    match float64 t with None => None | Some (f, r) =>
      match run_f64 k' r with None => None | Some (fs, r') => Some (f :: fs, r') end end end.

(* normalise a fraction num/2^63 to lowest terms for comparison with big.Rat *)
Definition norm (p : Z * Z) : Z * Z := let g := Z.gcd (fst p) (snd p) in if Z.eqb g 0 then (0,1) else (fst p / g, snd p / g).
