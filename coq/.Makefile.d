Base/Bytes.vo Base/Bytes.glob Base/Bytes.v.beautified Base/Bytes.required_vo: Base/Bytes.v 
Base/Bytes.vio: Base/Bytes.v 
Base/Bytes.vos Base/Bytes.vok Base/Bytes.required_vos: Base/Bytes.v 
Base/CorrBase.vo Base/CorrBase.glob Base/CorrBase.v.beautified Base/CorrBase.required_vo: Base/CorrBase.v 
Base/CorrBase.vio: Base/CorrBase.v 
Base/CorrBase.vos Base/CorrBase.vok Base/CorrBase.required_vos: Base/CorrBase.v 
Gen/CaseTables.vo Gen/CaseTables.glob Gen/CaseTables.v.beautified Gen/CaseTables.required_vo: Gen/CaseTables.v 
Gen/CaseTables.vio: Gen/CaseTables.v 
Gen/CaseTables.vos Gen/CaseTables.vok Gen/CaseTables.required_vos: Gen/CaseTables.v 
Gen/Compl.vo Gen/Compl.glob Gen/Compl.v.beautified Gen/Compl.required_vo: Gen/Compl.v 
Gen/Compl.vio: Gen/Compl.v 
Gen/Compl.vos Gen/Compl.vok Gen/Compl.required_vos: Gen/Compl.v 
Gen/GenCodes.vo Gen/GenCodes.glob Gen/GenCodes.v.beautified Gen/GenCodes.required_vo: Gen/GenCodes.v 
Gen/GenCodes.vio: Gen/GenCodes.v 
Gen/GenCodes.vos Gen/GenCodes.vok Gen/GenCodes.required_vos: Gen/GenCodes.v 
Gen/Iupac.vo Gen/Iupac.glob Gen/Iupac.v.beautified Gen/Iupac.required_vo: Gen/Iupac.v 
Gen/Iupac.vio: Gen/Iupac.v 
Gen/Iupac.vos Gen/Iupac.vok Gen/Iupac.required_vos: Gen/Iupac.v 
Gen/Subst.vo Gen/Subst.glob Gen/Subst.v.beautified Gen/Subst.required_vo: Gen/Subst.v 
Gen/Subst.vio: Gen/Subst.v 
Gen/Subst.vos Gen/Subst.vok Gen/Subst.required_vos: Gen/Subst.v 
Gen/Alpha.vo Gen/Alpha.glob Gen/Alpha.v.beautified Gen/Alpha.required_vo: Gen/Alpha.v 
Gen/Alpha.vio: Gen/Alpha.v 
Gen/Alpha.vos Gen/Alpha.vok Gen/Alpha.required_vos: Gen/Alpha.v 
Gen/IOConst.vo Gen/IOConst.glob Gen/IOConst.v.beautified Gen/IOConst.required_vo: Gen/IOConst.v 
Gen/IOConst.vio: Gen/IOConst.v 
Gen/IOConst.vos Gen/IOConst.vok Gen/IOConst.required_vos: Gen/IOConst.v 
Base/Case.vo Base/Case.glob Base/Case.v.beautified Base/Case.required_vo: Base/Case.v Base/Bytes.vo Gen/CaseTables.vo
Base/Case.vio: Base/Case.v Base/Bytes.vio Gen/CaseTables.vio
Base/Case.vos Base/Case.vok Base/Case.required_vos: Base/Case.v Base/Bytes.vos Gen/CaseTables.vos
Model/Strand.vo Model/Strand.glob Model/Strand.v.beautified Model/Strand.required_vo: Model/Strand.v Base/Bytes.vo Base/Case.vo Gen/Compl.vo Gen/Alpha.vo
Model/Strand.vio: Model/Strand.v Base/Bytes.vio Base/Case.vio Gen/Compl.vio Gen/Alpha.vio
Model/Strand.vos Model/Strand.vok Model/Strand.required_vos: Model/Strand.v Base/Bytes.vos Base/Case.vos Gen/Compl.vos Gen/Alpha.vos
Spec/IupacSets.vo Spec/IupacSets.glob Spec/IupacSets.v.beautified Spec/IupacSets.required_vo: Spec/IupacSets.v Base/Bytes.vo Base/Case.vo
Spec/IupacSets.vio: Spec/IupacSets.v Base/Bytes.vio Base/Case.vio
Spec/IupacSets.vos Spec/IupacSets.vok Spec/IupacSets.required_vos: Spec/IupacSets.v Base/Bytes.vos Base/Case.vos
Proofs/StrandProofs.vo Proofs/StrandProofs.glob Proofs/StrandProofs.v.beautified Proofs/StrandProofs.required_vo: Proofs/StrandProofs.v Base/Bytes.vo Base/Case.vo Gen/Compl.vo Gen/Alpha.vo Gen/CaseTables.vo Spec/IupacSets.vo Model/Strand.vo
Proofs/StrandProofs.vio: Proofs/StrandProofs.v Base/Bytes.vio Base/Case.vio Gen/Compl.vio Gen/Alpha.vio Gen/CaseTables.vio Spec/IupacSets.vio Model/Strand.vio
Proofs/StrandProofs.vos Proofs/StrandProofs.vok Proofs/StrandProofs.required_vos: Proofs/StrandProofs.v Base/Bytes.vos Base/Case.vos Gen/Compl.vos Gen/Alpha.vos Gen/CaseTables.vos Spec/IupacSets.vos Model/Strand.vos
Props/C06.vo Props/C06.glob Props/C06.v.beautified Props/C06.required_vo: Props/C06.v Base/Bytes.vo Base/Case.vo Gen/Compl.vo Gen/Alpha.vo Spec/IupacSets.vo Model/Strand.vo Proofs/StrandProofs.vo
Props/C06.vio: Props/C06.v Base/Bytes.vio Base/Case.vio Gen/Compl.vio Gen/Alpha.vio Spec/IupacSets.vio Model/Strand.vio Proofs/StrandProofs.vio
Props/C06.vos Props/C06.vok Props/C06.required_vos: Props/C06.v Base/Bytes.vos Base/Case.vos Gen/Compl.vos Gen/Alpha.vos Spec/IupacSets.vos Model/Strand.vos Proofs/StrandProofs.vos
Corr/C06.vo Corr/C06.glob Corr/C06.v.beautified Corr/C06.required_vo: Corr/C06.v Base/Bytes.vo Base/Case.vo Base/CorrBase.vo Gen/Compl.vo Gen/Alpha.vo Spec/IupacSets.vo Model/Strand.vo
Corr/C06.vio: Corr/C06.v Base/Bytes.vio Base/Case.vio Base/CorrBase.vio Gen/Compl.vio Gen/Alpha.vio Spec/IupacSets.vio Model/Strand.vio
Corr/C06.vos Corr/C06.vok Corr/C06.required_vos: Corr/C06.v Base/Bytes.vos Base/Case.vos Base/CorrBase.vos Gen/Compl.vos Gen/Alpha.vos Spec/IupacSets.vos Model/Strand.vos
