(* GENERATED from /repo by `harness gentables` on every run: do not edit. *)
From Coq Require Import List ZArith QArith.
From Coq.Strings Require Import Byte.
Import ListNotations.

Definition FASTA_LINE : nat := 80.
Definition PHYLIP_LINE : nat := 60.
Definition PHYLIP_BLOCK : nat := 10.
Definition CLUSTAL_LINE : nat := 50.
Definition PAML_LINE : nat := 60.
Definition PAML_BLOCK : nat := 10.
