(* GENERATED from /repo by `harness gentables` on every run: do not edit. *)
From Coq Require Import List ZArith QArith.
From Coq.Strings Require Import Byte.
Import ListNotations.

Definition stdaminoacid : list byte := [x41; x52; x4e; x44; x43; x51; x45; x47; x48; x49; x4c; x4b; x4d; x46; x50; x53; x54; x57; x59; x56].
Definition stdnucleotides : list byte := [x41; x43; x47; x54].
Definition AMINOACIDS : Z := 0%Z.
Definition NUCLEOTIDS : Z := 1%Z.
Definition BOTH : Z := 2%Z.
Definition UNKNOWN : Z := 3%Z.
Definition GAP : byte := x2d.
Definition POINT : byte := x2e.
Definition OTHER : byte := x2a.
Definition ALL_AMINO : byte := x58.
Definition ALL_NUCLE : byte := x4e.
Definition IGNORE_NONE : Z := 0%Z.
Definition IGNORE_NAME : Z := 1%Z.
Definition IGNORE_SEQUENCE : Z := 2%Z.
