(* GENERATED from /repo by `harness gentables` on every run: do not edit. *)
From Coq Require Import List ZArith QArith.
From Coq.Strings Require Import Byte.
Import ListNotations.

(* align/const.go IupacCode *)
Definition iupac_code : list (byte * list byte) := [
  (x2d, [x2d]); (* - *)
  (x41, [x41]); (* A *)
  (x42, [x43; x47; x54]); (* B *)
  (x43, [x43]); (* C *)
  (x44, [x41; x47; x54]); (* D *)
  (x47, [x47]); (* G *)
  (x48, [x41; x43; x54]); (* H *)
  (x4b, [x47; x54]); (* K *)
  (x4d, [x41; x43]); (* M *)
  (x4e, [x41; x43; x47; x54]); (* N *)
  (x52, [x41; x47]); (* R *)
  (x53, [x47; x43]); (* S *)
  (x54, [x54]); (* T *)
  (x56, [x41; x43; x47]); (* V *)
  (x57, [x41; x54]); (* W *)
  (x59, [x43; x54]) (* Y *)
].

(* align/const.go iupacToInt *)
Definition iupac_to_int : list (byte * Z) := [
  (x2a, 0%Z); (* * *)
  (x2d, 0%Z); (* - *)
  (x2e, 0%Z); (* . *)
  (x41, 1%Z); (* A *)
  (x42, 14%Z); (* B *)
  (x43, 2%Z); (* C *)
  (x44, 13%Z); (* D *)
  (x47, 4%Z); (* G *)
  (x48, 11%Z); (* H *)
  (x4b, 12%Z); (* K *)
  (x4d, 3%Z); (* M *)
  (x4e, 15%Z); (* N *)
  (x52, 5%Z); (* R *)
  (x53, 6%Z); (* S *)
  (x54, 8%Z); (* T *)
  (x56, 7%Z); (* V *)
  (x57, 9%Z); (* W *)
  (x58, 0%Z); (* X *)
  (x59, 10%Z) (* Y *)
].

(* align/const.go iupacCodeByte *)
Definition iupac_code_byte : list (list Z) := [
  [];
  [1%Z];
  [2%Z];
  [1%Z; 2%Z];
  [4%Z];
  [1%Z; 4%Z];
  [4%Z; 2%Z];
  [1%Z; 2%Z; 4%Z];
  [8%Z];
  [1%Z; 8%Z];
  [2%Z; 8%Z];
  [1%Z; 2%Z; 8%Z];
  [4%Z; 8%Z];
  [1%Z; 4%Z; 8%Z];
  [2%Z; 4%Z; 8%Z];
  [1%Z; 2%Z; 4%Z; 8%Z]
].
