package main

// C08: distances depend only on column content; thread count; failing models.

import (
	"fmt"
	"math/rand"
	"sync/atomic"
	"time"

	"github.com/evolbioinfo/goalign/align"
	"github.com/evolbioinfo/goalign/distance/dna"
)

func init() { register("c08", c08) }

// a DistModel whose k-th evaluation fails
type failingModel struct {
	dna.DistModel
	k     int64
	from  bool // every evaluation from the k-th on fails
	calls int64
}

func (f *failingModel) Distance(s1, s2 []uint8, w []float64) (float64, error) {
	n := atomic.AddInt64(&f.calls, 1)
	if n == f.k || (f.from && n > f.k) {
		return 0, fmt.Errorf("evaluation %d fails", n)
	}
	return f.DistModel.Distance(s1, s2, w)
}

func matTerm(m [][]float64) string {
	rows := []string{}
	for _, r := range m {
		it := []string{}
		for _, f := range r {
			it = append(it, flTerm(f))
		}
		rows = append(rows, coqList(it))
	}
	return coqList(rows)
}

func c08(args []string) error {
	g, err := parseGenFlags("c08", args)
	if err != nil {
		return err
	}
	r := rand.New(rand.NewSource(g.seed))
	w := newCaseWriter("C08")
	stats := map[string]int{}

	emit := func(what string, kind, factor int, perm []int, a [][]float64, cb *c07case, returned, errored bool) {
		if cb.matrix == nil {
			cb.matrix = [][]float64{}
		}
		term := fmt.Sprintf("mk %s %s %s %s %s %s %s %s (%s)", coqStr(what), coqZ(kind), coqZ(factor), coqZList(perm), matTerm(a), matTerm(cb.matrix),
			coqBool(returned), coqBool(errored), "C07."+cb.coq())
		w.add(term, map[string]interface{}{"op": what, "kind": kind, "factor": factor, "perm": perm, "model": c07Models[cb.model], "gamma": cb.gamma,
			"rmgaps": cb.rmgaps, "gapmode": cb.gapmode, "weights": cb.useWeights, "names": cb.names, "seqs": cb.seqs,
			"a": fmt.Sprint(a), "b": fmt.Sprint(cb.matrix), "returned": returned, "errored": errored})
		stats[what]++
	}

	for i := 0; i < g.n; i++ {
		cs := genC07(r)
		// strand symmetry for every corrected model with and without gamma
		rcBoost := r.Intn(8) == 0
		if rcBoost {
			if cs.model <= 1 {
				cs.model = 2 + r.Intn(5)
			}
			cs.gamma = r.Intn(2) == 0
		}
		satur := r.Intn(12) == 0
		if satur { // dozens of exactly saturated pairs: the bookkeeping the workers share for them
			cs = saturatedC08(r)
		}
		for k := range cs.seqs { // no character without a code here
			b := []byte(cs.seqs[k])
			for j := range b {
				if b[j] == '?' {
					b[j] = 'A'
				}
			}
			cs.seqs[k] = string(b)
		}
		if r.Intn(6) == 0 { // p-distance with removal of ambiguous matches: the weighted denominator
			cs.model, cs.rmamb, cs.gapmode = 1, true, 0
		}
		A, class := runDist(cs, 1)
		if class == OutDiverge || class == OutPanic {
			// the call must always return: recorded as a case that did not
			cb := *cs
			cb.matrix, cb.class = [][]float64{}, class
			emit("one worker: DistMatrix did not return ("+class+")", 4, 1, nil, [][]float64{}, &cb, false, false)
			continue
		}
		if class != OutOk {
			continue
		}
		cs.matrix = A
		cs.class = class
		L := len(cs.seqs[0])
		clone := func() *c07case {
			c := *cs
			c.seqs = append([]string{}, cs.seqs...)
			c.names = append([]string{}, cs.names...)
			c.weights = append([]dyadic{}, cs.weights...)
			return &c
		}
		finish := func(what string, kind, factor int, perm []int, cb *c07case, cpus int) {
			var cl string
			cb.matrix, cl = runDist(cb, cpus)
			cb.class = cl
			emit(what, kind, factor, perm, A, cb, cl != OutDiverge && cl != OutPanic, cl != OutOk)
		}
		kindSel := r.Intn(10)
		if kindSel == 9 {
			kindSel = 8
		}
		if rcBoost && !satur {
			kindSel = 4
		}
		if satur {
			kindSel = []int{6, 6, 8}[r.Intn(3)] // thread counts, or sequence ranges over the many undefined pairs
		}
		switch kindSel {
		case 0: // column permutation (the internal-gap mode depends on column order by definition)
			if cs.gapmode == 1 && cs.model <= 1 {
				continue
			}
			p := r.Perm(L)
			cb := clone()
			for k := range cb.seqs {
				b := make([]byte, L)
				for j, q := range p {
					b[j] = cs.seqs[k][q]
				}
				cb.seqs[k] = string(b)
			}
			for j, q := range p {
				cb.weights[j] = cs.weights[q]
			}
			finish("column permutation", 1, 1, nil, cb, 1)
		case 1: // replication k times
			if cs.gapmode == 1 && cs.model <= 1 {
				continue
			}
			k := 2 + r.Intn(2)
			cb := clone()
			for q := range cb.seqs {
				s := ""
				for x := 0; x < k; x++ {
					s += cs.seqs[q]
				}
				cb.seqs[q] = s
			}
			ws := []dyadic{}
			for x := 0; x < k; x++ {
				ws = append(ws, cs.weights...)
			}
			cb.weights = ws
			if cs.model == 0 {
				finish("replication (raw distance scales)", 2, k, nil, cb, 1)
			} else {
				finish("replication", 1, 1, nil, cb, 1)
			}
		case 2: // integer weight k instead of replication
			if cs.useWeights {
				continue
			}
			k := 2 + r.Intn(2)
			cb := clone()
			cb.useWeights = true
			for j := range cb.weights {
				cb.weights[j] = dyadic{k, 1}
			}
			if cs.model == 0 {
				finish("integer weights (raw distance scales)", 2, k, nil, cb, 1)
			} else {
				finish("integer weights", 1, 1, nil, cb, 1)
			}
		case 3: // explicit unit weights
			if cs.useWeights {
				continue
			}
			cb := clone()
			cb.useWeights = true
			for j := range cb.weights {
				cb.weights[j] = dyadic{1, 1}
			}
			finish("unit weights", 0, 1, nil, cb, 1)
		case 4: // reverse complement of the whole alignment
			if cs.gapmode == 1 && cs.model <= 1 {
				continue
			}
			cb := clone()
			a, e := mkAlign(align.NUCLEOTIDS, cs.names, cs.seqs)
			if e != nil || a.ReverseComplement() != nil {
				continue
			}
			_, cb.seqs = alignContent(a)
			for j := range cb.weights {
				cb.weights[j] = cs.weights[L-1-j]
			}
			finish("reverse complement", 1, 1, nil, cb, 1)
		case 5: // row permutation
			p := r.Perm(len(cs.seqs))
			cb := clone()
			for k, q := range p {
				cb.seqs[k], cb.names[k] = cs.seqs[q], cs.names[q]
			}
			finish("row permutation", 3, 1, p, cb, 1)
		case 6: // thread count: bit-identical
			cb := clone()
			if satur {
				finish("thread count", 0, 1, nil, cb, []int{8, 16, 32}[r.Intn(3)])
			} else {
				finish("thread count", 0, 1, nil, cb, []int{2, 3, 8, 16, 32}[r.Intn(5)])
			}
		case 8: // sequence ranges: the requested pairs carry the entries of the full matrix, the rest is 0
			n := len(cs.seqs)
			rg := [4]int{}
			rg[0] = r.Intn(n)
			rg[1] = rg[0] + r.Intn(n-rg[0]+1) // may exceed the last row: clipped
			rg[2] = r.Intn(n)
			rg[3] = rg[2] + r.Intn(n-rg[2]+1)
			switch shape := r.Intn(3); {
			case n >= 3 && shape == 0: // range 1 strictly below range 2 in the matrix: every pair visited with i > j
				k := 1 + r.Intn(n-1)
				rg = [4]int{k, n - 1, 0, k - 1}
			case n >= 3 && shape == 1: // overlapping ranges, range 1 reaching beyond the last row of range 2: pairs
				// (i, j) with i past range 2 and j inside both ranges are produced once only, from row i
				k := 1 + r.Intn(n-2)   // 1 .. n-2
				m := k + r.Intn(n-1-k) // k .. n-2
				rg = [4]int{k, n - 1, r.Intn(k + 1), m}
			}
			cb := clone()
			cb.ranges = &rg
			B, cl := runDist(cb, []int{1, 2, 4}[r.Intn(3)])
			if B == nil {
				B = [][]float64{}
			}
			what := "sequence ranges"
			term := fmt.Sprintf("mk %s %s %s %s %s %s %s %s (%s)", coqStr(what), coqZ(5), coqZ(1), coqZList(rg[:]), matTerm(A), matTerm(B),
				coqBool(cl != OutDiverge && cl != OutPanic), coqBool(cl != OutOk), "C07."+cs.coq())
			w.add(term, map[string]interface{}{"op": what, "kind": 5, "perm": rg[:], "model": c07Models[cs.model], "gamma": cs.gamma,
				"rmgaps": cs.rmgaps, "gapmode": cs.gapmode, "weights": cs.useWeights, "names": cs.names, "seqs": cs.seqs,
				"a": fmt.Sprint(A), "b": fmt.Sprint(B)})
			stats[what]++
		case 7: // failing model at the k-th pair
			npairs := len(cs.seqs) * (len(cs.seqs) - 1) / 2
			k := 1 + r.Intn(npairs)
			cpus := []int{1, 2, 3, 4, 8, 16}[r.Intn(6)]
			from := r.Intn(2) == 0
			a, e := mkAlign(align.NUCLEOTIDS, cs.names, cs.seqs)
			if e != nil {
				continue
			}
			if r.Intn(3) == 0 {
				// many sequences and an early failure: far more pairs are still to be produced than any channel
				// buffer holds when the last worker leaves
				nbig := 18 + r.Intn(14)
				bn, bs := make([]string, nbig), make([]string, nbig)
				for q := range bn {
					bn[q] = fmt.Sprintf("b%d", q)
					bs[q] = randSeq(r, 6, func(r *rand.Rand) byte { return "ACGT"[r.Intn(4)] })
				}
				if big, e2 := mkAlign(align.NUCLEOTIDS, bn, bs); e2 == nil {
					a = big
					npairs = nbig * (nbig - 1) / 2
					k = 1 + r.Intn(12)
					if r.Intn(2) == 0 {
						cpus = 1
					}
				}
			}
			m, _ := dna.Model(c07Models[cs.model], cs.rmgaps)
			fm := &failingModel{DistModel: m, k: int64(k), from: from}
			done := make(chan error, 1)
			go func() {
				_, e := dna.DistMatrix(a, nil, fm, -1, -1, -1, -1, cs.gamma, cs.alpha.f(), cpus)
				done <- e
			}()
			returned, errored := false, false
			select {
			case e := <-done:
				returned, errored = true, e != nil
			case <-time.After(3 * time.Second):
			}
			cb := clone()
			emit(fmt.Sprintf("failing model (evaluation %d of %d, from-then-on=%v, %d workers)", k, npairs, from, cpus), 4, 1, nil, A, cb, returned, errored)
		}
	}
	if g.only >= 0 {
		w.terms = w.terms[g.only : g.only+1]
		w.meta = w.meta[g.only : g.only+1]
	}
	if err := w.flush(g.out, "C08", g.per); err != nil {
		return err
	}
	writeStats(g.out, stats)
	return nil
}

// saturatedC08: two groups of rows whose cross pairs are exactly saturated (JC69: 3 of every 4 sites differ; K2P: half
// of the sites are transversions), so that the estimator is +Inf for dozens of pairs and every worker records some of
// them for the final replacement by twice the largest finite distance; a few near copies give that finite maximum.
func saturatedC08(r *rand.Rand) *c07case {
	cs := &c07case{}
	m := 1 + r.Intn(3)
	na, nb, nc := 6+r.Intn(11), 6+r.Intn(11), 1+r.Intn(3) // up to 256 saturated pairs
	cs.model = 2
	unitA, unitB := "AAAA", "ACGT"
	if r.Intn(3) == 0 {
		cs.model = 3
		unitB = "ACAC"
	}
	rep := func(u string) string {
		o := ""
		for k := 0; k < m; k++ {
			o += u
		}
		return o
	}
	cs.seqs = nil
	for k := 0; k < na; k++ {
		cs.seqs = append(cs.seqs, rep(unitA))
	}
	for k := 0; k < nb; k++ {
		cs.seqs = append(cs.seqs, rep(unitB))
	}
	for k := 0; k < nc; k++ { // near copies of the first group: one more difference, a finite distance
		b := []byte(rep(unitA))
		b[r.Intn(len(b))] = 'G'
		cs.seqs = append(cs.seqs, string(b))
	}
	r.Shuffle(len(cs.seqs), func(i, j int) { cs.seqs[i], cs.seqs[j] = cs.seqs[j], cs.seqs[i] })
	cs.names = distinctNames(r, len(cs.seqs))
	cs.alpha = dyadic{1, 1}
	cs.weights = make([]dyadic, 4*m)
	for j := range cs.weights {
		cs.weights[j] = dyadic{1, 1}
	}
	return cs
}
