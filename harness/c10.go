package main

// C10: randomised operations as functions of the raw tape.

import (
	"fmt"
	"math/rand"
	"reflect"
	"strings"

	"github.com/evolbioinfo/goalign/align"
)

func init() { register("c10", c10) }

func qcoq(d dyadic) string { return fmt.Sprintf("(%d # %d)%%Q", d.num, d.den) }

func rawTape(seed int64, n int) []int64 {
	src := rand.NewSource(seed)
	t := make([]int64, n)
	for i := range t {
		t[i] = src.Int63()
	}
	return t
}

func coqZ64List(l []int64) string {
	it := make([]string, len(l))
	for i, v := range l {
		it[i] = fmt.Sprintf("%d", v)
	}
	return "[" + joinS(it, "; ") + "]%Z"
}

func joinS(l []string, sep string) string {
	out := ""
	for i, s := range l {
		if i > 0 {
			out += sep
		}
		out += s
	}
	return out
}

func c10(args []string) error {
	g, err := parseGenFlags("c10", args)
	if err != nil {
		return err
	}
	r := rand.New(rand.NewSource(g.seed))
	w := newCaseWriter("C10")
	stats := map[string]int{}
	rates := []dyadic{{0, 1}, {1, 4}, {1, 2}, {3, 4}, {1, 1}, {1, 8}, {3, 8}}

	// conformance of the tape model itself: Intn / Perm / Float64 through BuildBootstrap etc. is implicit;
	for i := 0; i < g.n; i++ {
		nseq := 1 + r.Intn(4)
		L := 1 + r.Intn(7)
		names := distinctNames(r, nseq)
		seqs := make([]string, nseq)
		for k := range seqs {
			seqs[k] = randSeq(r, L, func(r *rand.Rand) byte { return "ACGTacgt-N.*RY"[r.Intn(14)] })
		}
		alpha := align.NUCLEOTIDS
		if r.Intn(6) == 0 {
			alpha = align.AMINOACIDS
		}
		seed := r.Int63()
		kind := r.Intn(11)
		var opterm, opname string
		type result struct {
			class  string
			outN   []string
			outS   []string
			names1 []string
			names2 []string
		}
		run := func() result {
			res := result{outN: []string{}, outS: []string{}, names1: []string{}, names2: []string{}}
			a, e := mkAlign(alpha, names, seqs)
			if e != nil {
				res.class = "Skip"
				return res
			}
			var out align.SeqBag = a
			rand.Seed(seed)
			res.class, _ = guarded(5e9, func() error {
				switch kind {
				case 0:
					opname, opterm = "ShuffleSequences", "OpShuffleSeqs"
					a.ShuffleSequences()
				case 1:
					f := rates[r0(seed, len(rates))]
					if seed%11 == 0 {
						f = dyadic{3, 2}
					}
					opname, opterm = "BuildBootstrap", "OpBootstrap "+qcoq(f)
					boot := a.BuildBootstrap(f.f())
					out = boot
					// the replicate owns its rows: growing it in place (what seqboot --partition does with Concat) appends
					// to every row and disturbs none
					n0, s0 := alignContent(boot)
					if o2, e0 := mkAlign(alpha, n0, s0); len(n0) > 0 && len(s0[0]) > 0 && e0 == nil {
						out = o2
						tl := make([]string, len(n0))
						for k := range tl {
							tl[k] = "NN"
						}
						if tail, e := mkAlign(alpha, n0, tl); e == nil && boot.Concat(tail) == nil {
							_, s1 := alignContent(boot)
							okc := len(s1) == len(s0)
							for k := range s0 {
								if okc && s1[k] != s0[k]+"NN" {
									okc = false
								}
							}
							if !okc {
								if o3, e := mkAlign(alpha, []string{"<the rows of the replicate share storage>"}, []string{"N"}); e == nil {
									out = o3
								}
							}
						}
					}
				case 2:
					ln := int(seed%int64(L+3)) - 1
					cons := seed%2 == 0
					opname, opterm = "RandSubAlign", fmt.Sprintf("OpRandSub %s %s", coqZ(ln), coqBool(cons))
					s, e := a.RandSubAlign(ln, cons)
					if e != nil {
						return e
					}
					out = s
				case 3:
					nb := int(seed%int64(nseq+3)) - 1
					opname, opterm = "Sample", "OpSample "+coqZ(nb)
					s, e := a.Sample(nb)
					if e != nil {
						return e
					}
					out = s
				case 4:
					rate, rr := rates[r0(seed, 5)], rates[r0(seed/7, 5)]
					rf := seed%2 == 0
					opname, opterm = "ShuffleSites", fmt.Sprintf("OpShuffleSites %s %s %s", qcoq(rate), qcoq(rr), coqBool(rf))
					res.names1 = a.ShuffleSites(rate.f(), rr.f(), rf)
				case 5:
					rate := rates[r0(seed, 5)]
					pos := rates[r0(seed/7, 5)]
					if seed%3 == 0 {
						opname, opterm = "Swap", fmt.Sprintf("OpSwap %s None", qcoq(rate))
						return a.Swap(rate.f(), -1)
					}
					opname, opterm = "Swap", fmt.Sprintf("OpSwap %s (Some %s)", qcoq(rate), qcoq(pos))
					return a.Swap(rate.f(), pos.f())
				case 6:
					p := []dyadic{{0, 1}, {1, 4}, {1, 2}, {3, 8}}[r0(seed, 4)]
					lp := rates[r0(seed/7, 5)]
					sw := seed%2 == 0
					opname, opterm = "Recombine", fmt.Sprintf("OpRecombine %s %s %s", qcoq(p), qcoq(lp), coqBool(sw))
					return a.Recombine(p.f(), lp.f(), sw)
				case 7:
					lp, p := rates[r0(seed, 5)], rates[r0(seed/7, 5)]
					opname, opterm = "AddGaps", fmt.Sprintf("OpAddGaps %s %s", qcoq(lp), qcoq(p))
					a.AddGaps(lp.f(), p.f())
				case 10:
					// Rarefy: every row has a count of 1..2, nb below, at or above the total
					counts := map[string]int{}
					it := []string{}
					total := 0
					for q, nm := range names {
						c := 1 + int((seed>>uint(q%20))&1)
						counts[nm] = c
						total += c
						it = append(it, fmt.Sprintf("(%s, %s)", coqStr(nm), coqZ(c)))
					}
					nb := int(seed%int64(total+2)) + 0
					opname, opterm = "Rarefy", fmt.Sprintf("OpRarefy %s %s", coqZ(nb), coqList(it))
					s, e := a.Rarefy(nb, counts)
					if e != nil {
						return e
					}
					out = s
				case 8:
					rate := rates[r0(seed, len(rates))]
					opname, opterm = "Mutate", "OpMutate "+qcoq(rate)
					a.Mutate(rate.f())
				default:
					p, pl := rates[r0(seed, 5)], rates[r0(seed/7, 5)]
					opname, opterm = "SimulateRogue", fmt.Sprintf("OpRogue %s %s", qcoq(p), qcoq(pl))
					res.names1, res.names2 = a.SimulateRogue(p.f(), pl.f())
				}
				return nil
			})
			res.outN, res.outS = alignContent(out)
			if res.names1 == nil {
				res.names1 = []string{}
			}
			if res.names2 == nil {
				res.names2 = []string{}
			}
			return res
		}
		r1 := run()
		if r1.class == "Skip" {
			continue
		}
		r2 := run()
		replay := reflect.DeepEqual(r1, r2)
		tp := rawTape(seed, 160)
		term := fmt.Sprintf("mk %s %s %s (%s) %s %s %s %s %s", coqZ(alpha), coqRows(names, seqs), coqZ64List(tp), opterm,
			coqBool(r1.class != OutOk), coqRows(r1.outN, r1.outS), coqStrList(r1.names1), coqStrList(r1.names2), coqBool(replay))
		w.add(term, map[string]interface{}{"op": opname, "opterm": opterm, "alphabet": alpha, "names": names, "seqs": seqs, "rand_seed": seed,
			"class": r1.class, "out_names": r1.outN, "out_seqs": r1.outS, "names1": r1.names1, "names2": r1.names2, "replay_identical": replay})
		stats[opname+":"+r1.class]++
	}
	// reachability: outcomes observed over 96 seeds
	for i := 0; i < g.n/25+3; i++ {
		what := i % 3
		nseq := 3
		if what == 2 {
			nseq = 2 + r.Intn(3)
		}
		L := 2 + r.Intn(5)
		letters := []byte("ACGTRYKM")
		r.Shuffle(len(letters), func(a, b int) { letters[a], letters[b] = letters[b], letters[a] })
		names := distinctNames(r, nseq)
		for _, n := range names {
			if strings.Contains(n, "|") {
				names = []string{"a", "b", "c", "d", "e"}[:nseq]
			}
		}
		seqs := make([]string, nseq)
		for k := range seqs {
			seqs[k] = string(letters[:L])
		}
		ln := 1 + r.Intn(L)
		obs := []string{}
		for s := 0; s < 96; s++ {
			a, e := mkAlign(align.NUCLEOTIDS, names, seqs)
			if e != nil {
				break
			}
			rand.Seed(r.Int63())
			switch what {
			case 0:
				if sub, e := a.RandSubAlign(ln, true); e == nil {
					_, ss := alignContent(sub)
					obs = append(obs, ss[0])
				}
			case 1:
				a.ShuffleSequences()
				nn, _ := alignContent(a)
				obs = append(obs, strings.Join(nn, "|"))
			default:
				if sub, e := a.Sample(1); e == nil {
					nn, _ := alignContent(sub)
					obs = append(obs, nn[0])
				}
			}
		}
		opname := []string{"support:RandSubAlign", "support:ShuffleSequences", "support:Sample"}[what]
		term := fmt.Sprintf("mk %s %s []%%Z (OpSupport %d %d) false [] %s [] true", coqZ(align.NUCLEOTIDS), coqRows(names, seqs), what, ln, coqStrList(obs))
		w.add(term, map[string]interface{}{"op": opname, "names": names, "seqs": seqs, "len": ln, "observed": obs})
		stats[opname]++
	}
	if g.only >= 0 {
		w.terms = w.terms[g.only : g.only+1]
		w.meta = w.meta[g.only : g.only+1]
	}
	if err := w.flush(g.out, "C10", g.per); err != nil {
		return err
	}
	writeStats(g.out, stats)
	return nil
}

func r0(seed int64, n int) int {
	if seed < 0 {
		seed = -seed
	}
	return int(seed % int64(n))
}
