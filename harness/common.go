package main

import (
	"flag"
	"fmt"
	"io"
	"log"
	"math/rand"
	"time"

	"github.com/evolbioinfo/goalign/align"
)

// genFlags are shared by all case generators.
type genFlags struct {
	seed int64
	n    int
	out  string
	per  int
	tier string
	only int
}

func parseGenFlags(name string, args []string) (*genFlags, error) {
	fs := flag.NewFlagSet(name, flag.ContinueOnError)
	g := &genFlags{}
	fs.Int64Var(&g.seed, "seed", 1, "PRNG seed of the generator")
	fs.IntVar(&g.n, "n", 300, "number of random cases")
	fs.StringVar(&g.out, "out", "", "output prefix (<out>_<k>.v, <out>.jsonl)")
	fs.IntVar(&g.per, "per", 400, "cases per Coq shard")
	fs.StringVar(&g.tier, "tier", "quick", "quick|thorough")
	fs.IntVar(&g.only, "only", -1, "replay: keep only this case index")
	if err := fs.Parse(args); err != nil {
		return nil, err
	}
	if g.out == "" {
		return nil, fmt.Errorf("-out required")
	}
	log.SetOutput(io.Discard) // goalign warns on stderr through the global logger
	return g, nil
}

// outcome classes shared with the Coq side (Base/Outcome.v)
const (
	OutOk      = "Ok"
	OutErr     = "Err"
	OutPanic   = "Panic"
	OutDiverge = "Diverge"
	OutExit    = "Exit"
)

// guarded runs f in a goroutine, converting a panic into OutPanic and a
// timeout into OutDiverge (the goroutine is abandoned).
func guarded(timeout time.Duration, f func() error) (class string, msg string) {
	type res struct {
		class, msg string
	}
	done := make(chan res, 1)
	go func() {
		defer func() {
			if r := recover(); r != nil {
				done <- res{OutPanic, fmt.Sprint(r)}
			}
		}()
		if err := f(); err != nil {
			done <- res{OutErr, err.Error()}
		} else {
			done <- res{OutOk, ""}
		}
	}()
	select {
	case r := <-done:
		return r.class, r.msg
	case <-time.After(timeout):
		return OutDiverge, "timeout"
	}
}

// ---- generators -------------------------------------------------------------

const dnaIupacUpper = "ACGTRYSWKMBDHVN"

func randDNAByte(r *rand.Rand) byte {
	x := r.Intn(100)
	switch {
	case x < 50:
		return "ACGT"[r.Intn(4)]
	case x < 62:
		return "acgt"[r.Intn(4)]
	case x < 74:
		return dnaIupacUpper[r.Intn(len(dnaIupacUpper))]
	case x < 82:
		return "acgtryswkmbdhvn"[r.Intn(15)]
	case x < 94:
		return '-'
	case x < 97:
		return '.'
	default:
		return '*'
	}
}

func randSeq(r *rand.Rand, l int, gen func(*rand.Rand) byte) string {
	b := make([]byte, l)
	for i := range b {
		b[i] = gen(r)
	}
	return string(b)
}

var nameUniverse = []string{"a", "b", "s1", "s2", "Seq_3", "x", "A", "seq4", "t10", "0", "name-with-dash", "s1_0001"}

func randName(r *rand.Rand) string { return nameUniverse[r.Intn(len(nameUniverse))] }

func distinctNames(r *rand.Rand, n int) []string {
	p := r.Perm(len(nameUniverse))
	out := []string{}
	for i := 0; i < n && i < len(p); i++ {
		out = append(out, nameUniverse[p[i]])
	}
	for len(out) < n {
		out = append(out, fmt.Sprintf("extra%d", len(out)))
	}
	return out
}

// biased small sizes
func randLen(r *rand.Rand, max int) int {
	x := r.Intn(10)
	switch {
	case x == 0:
		return 0
	case x == 1:
		return 1
	case x < 5:
		return r.Intn(4) + 1
	default:
		return r.Intn(max + 1)
	}
}

func alignContent(a align.SeqBag) (names []string, seqs []string) {
	names = []string{}
	seqs = []string{}
	a.IterateChar(func(name string, s []uint8) bool {
		names = append(names, name)
		seqs = append(seqs, string(s))
		return false
	})
	return
}

func mkAlign(alphabet int, names, seqs []string) (align.Alignment, error) {
	a := align.NewAlign(alphabet)
	for i := range names {
		if err := a.AddSequence(names[i], seqs[i], ""); err != nil {
			return nil, err
		}
	}
	return a, nil
}

func mkSeqBag(alphabet int, names, seqs []string) align.SeqBag {
	a := align.NewSeqBag(alphabet)
	for i := range names {
		a.AddSequence(names[i], seqs[i], "")
	}
	return a
}

func writeStats(prefix string, stats map[string]int) {
	b, _ := jsonMarshal(stats)
	_ = writeFile(prefix+".stats.json", b)
}
