package main

// C19: queries never modify their input; copies share nothing.

import (
	"fmt"
	"math/rand"
	"strings"

	"github.com/evolbioinfo/goalign/align"
	"github.com/evolbioinfo/goalign/distance/dna"
	"github.com/evolbioinfo/goalign/distance/protein"
	"github.com/evolbioinfo/goalign/io/clustal"
	"github.com/evolbioinfo/goalign/io/fasta"
	"github.com/evolbioinfo/goalign/io/nexus"
	"github.com/evolbioinfo/goalign/io/paml"
	"github.com/evolbioinfo/goalign/io/phylip"
	"github.com/evolbioinfo/goalign/io/stockholm"
	protmodel "github.com/evolbioinfo/goalign/models/protein"
)

func init() { register("c19", c19) }

type c19op struct {
	name string
	term func() string                                       // Coq op term (may depend on what run observed)
	run  func(a align.Alignment) (res align.SeqBag, e error) // nil result = query
}

func mutateAll(sb align.SeqBag, c byte) {
	for i := 0; i < sb.NbSequences(); i++ {
		s, _ := sb.GetSequenceCharById(i)
		for j := range s {
			sb.SetSequenceChar(i, j, c)
		}
	}
}

func c19(args []string) error {
	g, err := parseGenFlags("c19", args)
	if err != nil {
		return err
	}
	r := rand.New(rand.NewSource(g.seed))
	w := newCaseWriter("C19")
	stats := map[string]int{}

	for i := 0; i < g.n; i++ {
		nseq := 2 + r.Intn(3)
		L := 3 + r.Intn(10)
		names := distinctNames(r, nseq)
		seqs := make([]string, nseq)
		prot := r.Intn(6) == 0
		for k := range seqs {
			if prot {
				seqs[k] = randSeq(r, L, func(r *rand.Rand) byte { return "ARNDCQEGHILKMFPSTWYV-"[r.Intn(21)] })
			} else {
				seqs[k] = randSeq(r, L, func(r *rand.Rand) byte { return "ACGTACGTACGT-N"[r.Intn(14)] })
			}
		}
		if !prot && r.Intn(4) == 0 {
			// RNA spelling and soft-masked residues: an in-place transform that is undone afterwards must restore them
			for k := range seqs {
				b := []byte(seqs[k])
				for j := range b {
					if b[j] == 'T' && r.Intn(2) == 0 {
						b[j] = "Uu"[r.Intn(2)]
					} else if r.Intn(6) == 0 && b[j] >= 'A' && b[j] <= 'Z' {
						b[j] += 32
					}
				}
				seqs[k] = string(b)
			}
		}
		alpha := align.NUCLEOTIDS
		if prot {
			alpha = align.AMINOACIDS
		}
		if !prot && r.Intn(2) == 0 && L >= 9 {
			// an open reading frame inside the rows, so that ORF search / phasing / alignment do real work
			for k := range seqs {
				b := []byte(seqs[k])
				copy(b, "ATG")
				for q := 3; q+3 <= L-3; q += 3 {
					copy(b[q:], []string{"GCT", "AAA", "GGC", "CTG"}[r.Intn(4)])
				}
				copy(b[L-3-(L%3):], "TAA")
				seqs[k] = string(b)
			}
		}
		seed := r.Int63()
		var op c19op
		kind := r.Intn(28)
		if prot && kind >= 12 && kind != 25 && kind < 26 {
			kind = r.Intn(12)
		}
		switch kind {
		case 0:
			op = c19op{"Clone", func() string { return "OClone" }, func(a align.Alignment) (align.SeqBag, error) { return a.Clone() }}
		case 1:
			op = c19op{"CloneSeqBag", func() string { return "OClone" }, func(a align.Alignment) (align.SeqBag, error) { return a.CloneSeqBag() }}
		case 2:
			s := r.Intn(L)
			l := r.Intn(L - s + 1)
			if r.Intn(4) == 0 { // the whole alignment as window: still a copy
				s, l = 0, L
			}
			op = c19op{"SubAlign", func() string { return fmt.Sprintf("OSubAlign %s %s", coqZ(s), coqZ(l)) },
				func(a align.Alignment) (align.SeqBag, error) { return a.SubAlign(s, l) }}
		case 3:
			sites := make([]int, 1+r.Intn(4))
			for q := range sites {
				sites[q] = r.Intn(L)
			}
			op = c19op{"SelectSites", func() string { return "OSelectSites " + coqZList(sites) },
				func(a align.Alignment) (align.SeqBag, error) { return a.SelectSites(sites) }}
		case 4:
			op = c19op{"Transpose", func() string { return "OTranspose" }, func(a align.Alignment) (align.SeqBag, error) { return a.Transpose() }}
		case 5:
			op = c19op{"BuildBootstrap", func() string { return "OFresh " + coqStr("BuildBootstrap") },
				func(a align.Alignment) (align.SeqBag, error) { rand.Seed(seed); return a.BuildBootstrap(1.0), nil }}
		case 6:
			op = c19op{"Unalign", func() string { return "OFresh " + coqStr("Unalign") },
				func(a align.Alignment) (align.SeqBag, error) { return a.Unalign(), nil }}
		case 7:
			op = c19op{"Consensus", func() string { return "OFresh " + coqStr("Consensus") },
				func(a align.Alignment) (align.SeqBag, error) {
					var c align.Alignment = a.Consensus(false, false)
					return c, nil
				}}
		case 8:
			op = c19op{"Sequence.Clone", func() string { return "OFresh " + coqStr("Sequence.Clone") },
				func(a align.Alignment) (align.SeqBag, error) {
					s, _ := a.Sequence(0)
					c := s.Clone()
					b := align.NewSeqBag(alpha)
					b.AddSequenceChar(c.Name(), c.SequenceChar(), "")
					return b, nil
				}}
		case 9: // Sample: the sample owns its rows (they used to be slices of the source: repaired)
			nb := 1 + r.Intn(nseq)
			op = c19op{"Sample", func() string { return "OFresh " + coqStr("Sample") },
				func(a align.Alignment) (align.SeqBag, error) {
					rand.Seed(seed)
					return a.Sample(nb)
				}}
		case 10: // RandSubAlign(consecutive): a copy of the window, like SubAlign (it used to be a view: repaired)
			l := 1 + r.Intn(L)
			var start int
			op = c19op{"RandSubAlign", func() string { return fmt.Sprintf("OSubAlign %s %s", coqZ(start), coqZ(l)) },
				func(a align.Alignment) (align.SeqBag, error) {
					rand.Seed(seed)
					start = rand.Intn(L - l + 1)
					rand.Seed(seed)
					return a.RandSubAlign(l, true)
				}}
		case 26, 27: // Split: contiguous blocks or interleaved (codon-like) partitions; every part is a copy
			mode := r.Intn(2)
			kcut := 1 + r.Intn(L-1)
			op = c19op{"Split", func() string { return "OFresh " + coqStr("Split") },
				func(a align.Alignment) (align.SeqBag, error) {
					ps := align.NewPartitionSet(a.Length())
					if mode == 0 {
						k := kcut
						ps.AddRange("A", "m", 0, k-1, 1)
						ps.AddRange("B", "m", k, L-1, 1)
					} else {
						for o := 0; o < 3 && o < L; o++ {
							ps.AddRange(fmt.Sprintf("p%d", o), "m", o, L-1, 3)
						}
					}
					parts, e := a.Split(ps)
					if e != nil || len(parts) == 0 {
						return nil, e
					}
					// all parts but the first are overwritten at once, the first one by the experiment
					for _, p := range parts[1:] {
						mutateAll(p, '%')
					}
					return parts[0], nil
				}}
		case 11:
			l := 1 + r.Intn(L)
			op = c19op{"RandSubAlign(non consecutive)", func() string { return "OFresh " + coqStr("RandSubAlign(false)") },
				func(a align.Alignment) (align.SeqBag, error) { rand.Seed(seed); return a.RandSubAlign(l, false) }}
		default: // queries
			q := kind - 12
			qnames := []string{"fasta.WriteAlignment", "phylip.WriteAlignment", "nexus.WriteAlignment", "clustal.WriteAlignment",
				"stockholm.WriteAlignment", "paml.WriteAlignment", "statistics", "dna.DistMatrix", "NewPwAligner.Alignment",
				"LongestORF", "Phaser.Phase", "mutation counters", "Compress-free site patterns", "protein.MLDist"}
			qn := qnames[q%len(qnames)]
			if prot && qn != "protein.MLDist" {
				qn = qnames[q%7]
			}
			if !prot && qn == "protein.MLDist" {
				qn = "statistics"
			}
			op = c19op{qn, func() string { return "OQuery " + coqStr(qn) }, func(a align.Alignment) (align.SeqBag, error) {
				switch qn {
				case "fasta.WriteAlignment":
					_ = fasta.WriteAlignment(a)
					_ = fasta.WriteSequences(a) // the gap-dropping writer
				case "phylip.WriteAlignment":
					_ = phylip.WriteAlignment(a, false, false, false)
					_ = phylip.WriteAlignment(a, true, true, true)
				case "nexus.WriteAlignment":
					_ = nexus.WriteAlignment(a)
				case "clustal.WriteAlignment":
					_ = clustal.WriteAlignment(a)
				case "stockholm.WriteAlignment":
					_ = stockholm.WriteAlignment(a)
				case "paml.WriteAlignment":
					_ = paml.WriteAlignment(a)
				case "statistics":
					a.CharStats()
					a.MaxCharStats(true, true)
					a.Entropy(0, true)
					a.NbVariableSites()
					a.InformativeSites()
					a.AvgAllelesPerSite()
					a.CountDifferences()
					a.Pssm(true, 0.1, align.PSSM_NORM_FREQ)
					a.UniqueCharacters()
					a.CharStatsSite(0)
				case "dna.DistMatrix":
					for _, mn := range []string{"jc", "k2p", "f81", "f84", "tn93", "pdist", "rawdist"} {
						m, e := dna.Model(mn, mn == "k2p")
						if e != nil {
							return nil, e
						}
						if _, e = dna.DistMatrix(a, nil, m, -1, -1, -1, -1, false, 0, 2); e != nil {
							return nil, nil
						}
					}
				case "NewPwAligner.Alignment":
					s1, _ := a.Sequence(0)
					s2, _ := a.Sequence(1)
					for _, algo := range []int{align.ALIGN_ALGO_SW, align.ALIGN_ALGO_ATG} {
						pw := align.NewPwAligner(s1, s2, algo)
						pw.Alignment()
					}
				case "LongestORF":
					a.LongestORF(true)
					a.LongestORF(false)
				case "Phaser.Phase":
					// translating a sequence reads it only
					for k := 0; k < a.NbSequences(); k++ {
						if sq, ok := a.Sequence(k); ok {
							sq.Translate(k%3, align.GENETIC_CODE_STANDARD)
						}
					}
					ph := align.NewPhaser()
					ph.SetReverse(true)
					ph.SetCpus(2)
					if len(qn)%2 == 0 || a.NbSequences()%2 == 0 {
						ph.SetTranslate(true, align.GENETIC_CODE_STANDARD)
					}
					ch, e := ph.Phase(nil, a)
					if e == nil {
						for range ch {
						}
					}
				case "mutation counters":
					a.NumGapsUniquePerSequence(nil)
					a.NumMutationsUniquePerSequence(nil)
					s1, _ := a.Sequence(0)
					s2, _ := a.Sequence(1)
					s2.NumMutationsComparedToReferenceSequence(alpha, s1)
					s2.ListMutationsComparedToReferenceSequence(alpha, s1, false)
				case "Compress-free site patterns":
					a.Frameshifts(false)
					a.Stops(false, 0)
					a.SiteConservation(0)
				case "protein.MLDist":
					m, e := protein.NewProtDistModel(protmodel.MODEL_LG, true, false, 1.0, false)
					if e == nil {
						if e = m.InitModel(a, nil); e == nil {
							m.MLDist(a, nil)
						}
					}
				}
				return nil, nil
			}}
		}
		// writers and statistics are also run on alignments of unknown / undetermined alphabet
		if strings.HasSuffix(op.name, ".WriteAlignment") || op.name == "statistics" {
			switch r.Intn(3) {
			case 0:
				alpha = align.UNKNOWN
			case 1:
				alpha = align.BOTH
			}
		}
		// experiment 1: call, mutate the result
		a1, e := mkAlign(alpha, names, seqs)
		if e != nil {
			continue
		}
		alphabets := []int{a1.Alphabet()}
		var res1 align.SeqBag
		class, _ := guarded(20e9, func() error { var e error; res1, e = op.run(a1); return e })
		if class != OutOk {
			// errors (e.g. no ORF) are fine for a query: the input must still be unchanged
			res1 = nil
		}
		srcN1, srcS1 := alignContent(a1)
		alphabets = append(alphabets, a1.Alphabet())
		resN, resS := []string{}, []string{}
		if res1 != nil {
			resN, resS = alignContent(res1)
			mutateAll(res1, '#')
		}
		srcN2, srcS2 := alignContent(a1)
		alphabets = append(alphabets, a1.Alphabet())
		// experiment 2: call on a fresh input, mutate the source
		a2, _ := mkAlign(alpha, names, seqs)
		var res2 align.SeqBag
		class2, _ := guarded(20e9, func() error { var e error; res2, e = op.run(a2); return e })
		if class2 != OutOk {
			res2 = nil
		}
		mutateAll(a2, '@')
		res2N, res2S := []string{}, []string{}
		if res2 != nil {
			res2N, res2S = alignContent(res2)
		}
		term := fmt.Sprintf("mk %s (%s) %s %s %s %s %s", coqRows(names, seqs), op.term(), coqRows(srcN1, srcS1), coqRows(resN, resS), coqRows(srcN2, srcS2), coqRows(res2N, res2S), coqZList(alphabets))
		w.add(term, map[string]interface{}{"op": op.name, "opterm": op.term(), "alphabet": alpha, "names": names, "seqs": seqs, "class": class,
			"alphabets": alphabets, "src_after_call": srcS1, "result": resS, "src_after_result_mutated": srcS2, "result_after_src_mutated": res2S})
		stats[op.name+":"+class]++
	}
	if g.only >= 0 {
		w.terms = w.terms[g.only : g.only+1]
		w.meta = w.meta[g.only : g.only+1]
	}
	if err := w.flush(g.out, "C19", g.per); err != nil {
		return err
	}
	writeStats(g.out, stats)
	return nil
}
