package main

// Translator: reads the tables and constants out of the goalign packages as
// compiled from /repo's working tree (through the verif hooks) and prints them
// as Coq definitions under <outdir>.  Files are rewritten only when their
// content changes so that make stays incremental.

import (
	"bytes"
	"fmt"
	"github.com/evolbioinfo/goalign/version"
	"os"
	"path/filepath"
	"sort"
	"strings"
	"unicode"

	"github.com/evolbioinfo/goalign/align"
	"github.com/evolbioinfo/goalign/io/clustal"
	"github.com/evolbioinfo/goalign/io/fasta"
	"github.com/evolbioinfo/goalign/io/paml"
	"github.com/evolbioinfo/goalign/io/phylip"
)

func init() { register("gentables", gentables) }

const genHeader = "(* GENERATED from /repo by `harness gentables` on every run: do not edit. *)\nFrom Coq Require Import List ZArith QArith.\nFrom Coq.Strings Require Import Byte.\nImport ListNotations.\n\n"

func writeIfChanged(path string, content []byte) error {
	old, err := os.ReadFile(path)
	if err == nil && bytes.Equal(old, content) {
		return nil
	}
	return os.WriteFile(path, content, 0644)
}

func byteListLit(l []uint8) string {
	it := make([]string, len(l))
	for i, c := range l {
		it[i] = coqByte(c)
	}
	return "[" + strings.Join(it, "; ") + "]"
}

func sortedKeysU8(m map[uint8]uint8) []int {
	ks := []int{}
	for k := range m {
		ks = append(ks, int(k))
	}
	sort.Ints(ks)
	return ks
}

func floatAsZ(x float64) (string, error) {
	if x != float64(int(x)) {
		return "", fmt.Errorf("table entry %v is not an integer", x)
	}
	return coqZ(int(x)), nil
}

func gentables(args []string) error {
	if len(args) != 1 {
		return fmt.Errorf("usage: gentables <outdir>")
	}
	out := args[0]
	if err := os.MkdirAll(out, 0755); err != nil {
		return err
	}
	var b bytes.Buffer

	// --- CaseTables.v ---------------------------------------------------------
	b.Reset()
	b.WriteString(genHeader)
	up := make([]uint8, 256)
	lo := make([]uint8, 256)
	for i := 0; i < 256; i++ {
		up[i] = uint8(unicode.ToUpper(rune(i)))
		lo[i] = uint8(unicode.ToLower(rune(i)))
	}
	fmt.Fprintf(&b, "(* uint8(unicode.ToUpper(rune(b))) and uint8(unicode.ToLower(rune(b))) for b = 0..255 *)\n")
	fmt.Fprintf(&b, "Definition to_upper_tbl : list byte := %s.\n", byteListLit(up))
	fmt.Fprintf(&b, "Definition to_lower_tbl : list byte := %s.\n", byteListLit(lo))
	if err := writeIfChanged(filepath.Join(out, "CaseTables.v"), b.Bytes()); err != nil {
		return err
	}

	// --- Compl.v --------------------------------------------------------------
	b.Reset()
	b.WriteString(genHeader)
	cm := align.VerifComplementTable()
	fmt.Fprintf(&b, "(* align/const.go complement_nuc_mapping, keys ascending *)\n")
	fmt.Fprintf(&b, "Definition complement_tbl : list (byte * byte) := [\n")
	ks := sortedKeysU8(cm)
	for i, k := range ks {
		sep := ";"
		if i == len(ks)-1 {
			sep = ""
		}
		fmt.Fprintf(&b, "  (%s, %s)%s (* %q -> %q *)\n", coqByte(uint8(k)), coqByte(cm[uint8(k)]), sep, rune(k), rune(cm[uint8(k)]))
	}
	fmt.Fprintf(&b, "].\n")
	if err := writeIfChanged(filepath.Join(out, "Compl.v"), b.Bytes()); err != nil {
		return err
	}

	// --- GenCodes.v -----------------------------------------------------------
	b.Reset()
	b.WriteString(genHeader)
	codeNames := []string{"standardcode", "vertebratemitocode", "invertebratemitocode"}
	for ci, cn := range codeNames {
		g, err := align.VerifGeneticCode(ci)
		if err != nil {
			return err
		}
		cods := []string{}
		for k := range g {
			cods = append(cods, k)
		}
		sort.Strings(cods)
		fmt.Fprintf(&b, "(* align/const.go %s (geneticCode(%d)), keys ascending *)\n", cn, ci)
		fmt.Fprintf(&b, "Definition %s : list (list byte * byte) := [\n", cn)
		for i, k := range cods {
			sep := ";"
			if i == len(cods)-1 {
				sep = ""
			}
			fmt.Fprintf(&b, "  (%s, %s)%s (* %s -> %c *)\n", byteListLit([]uint8(k)), coqByte(g[k]), sep, k, g[k])
		}
		fmt.Fprintf(&b, "].\n\n")
	}
	fmt.Fprintf(&b, "Definition GENETIC_CODE_STANDARD : Z := %s.\nDefinition GENETIC_CODE_VETEBRATE_MITO : Z := %s.\nDefinition GENETIC_CODE_INVETEBRATE_MITO : Z := %s.\n",
		coqZ(align.GENETIC_CODE_STANDARD), coqZ(align.GENETIC_CODE_VETEBRATE_MITO), coqZ(align.GENETIC_CODE_INVETEBRATE_MITO))
	if err := writeIfChanged(filepath.Join(out, "GenCodes.v"), b.Bytes()); err != nil {
		return err
	}

	// --- Iupac.v --------------------------------------------------------------
	b.Reset()
	b.WriteString(genHeader)
	{
		ks := []int{}
		for k := range align.IupacCode {
			ks = append(ks, int(k))
		}
		sort.Ints(ks)
		fmt.Fprintf(&b, "(* align/const.go IupacCode *)\nDefinition iupac_code : list (byte * list byte) := [\n")
		for i, k := range ks {
			sep := ";"
			if i == len(ks)-1 {
				sep = ""
			}
			fmt.Fprintf(&b, "  (%s, %s)%s (* %c *)\n", coqByte(uint8(k)), byteListLit(align.IupacCode[uint8(k)]), sep, rune(k))
		}
		fmt.Fprintf(&b, "].\n\n")
		im := align.VerifIupacToInt()
		ks = sortedKeysU8(im)
		fmt.Fprintf(&b, "(* align/const.go iupacToInt *)\nDefinition iupac_to_int : list (byte * Z) := [\n")
		for i, k := range ks {
			sep := ";"
			if i == len(ks)-1 {
				sep = ""
			}
			fmt.Fprintf(&b, "  (%s, %s)%s (* %c *)\n", coqByte(uint8(k)), coqZ(int(im[uint8(k)])), sep, rune(k))
		}
		fmt.Fprintf(&b, "].\n\n")
		icb := align.VerifIupacCodeByte()
		fmt.Fprintf(&b, "(* align/const.go iupacCodeByte *)\nDefinition iupac_code_byte : list (list Z) := [\n")
		for i, l := range icb {
			sep := ";"
			if i == len(icb)-1 {
				sep = ""
			}
			it := []int{}
			for _, x := range l {
				it = append(it, int(x))
			}
			fmt.Fprintf(&b, "  %s%s\n", coqZList(it), sep)
		}
		fmt.Fprintf(&b, "].\n")
	}
	if err := writeIfChanged(filepath.Join(out, "Iupac.v"), b.Bytes()); err != nil {
		return err
	}

	// --- Subst.v --------------------------------------------------------------
	b.Reset()
	b.WriteString(genHeader)
	{
		pos := func(name string, m map[uint8]int) {
			ks := []int{}
			for k := range m {
				ks = append(ks, int(k))
			}
			sort.Ints(ks)
			fmt.Fprintf(&b, "Definition %s : list (byte * Z) := [\n", name)
			for i, k := range ks {
				sep := ";"
				if i == len(ks)-1 {
					sep = ""
				}
				fmt.Fprintf(&b, "  (%s, %s)%s (* %c *)\n", coqByte(uint8(k)), coqZ(m[uint8(k)]), sep, rune(k))
			}
			fmt.Fprintf(&b, "].\n\n")
		}
		mat := func(name string, m [][]float64) error {
			fmt.Fprintf(&b, "Definition %s : list (list Z) := [\n", name)
			for i, l := range m {
				sep := ";"
				if i == len(m)-1 {
					sep = ""
				}
				it := []string{}
				for _, x := range l {
					z, err := floatAsZ(x)
					if err != nil {
						return err
					}
					it = append(it, z)
				}
				fmt.Fprintf(&b, "  %s%s\n", coqList(it), sep)
			}
			fmt.Fprintf(&b, "].\n\n")
			return nil
		}
		pos("dna_to_matrix_pos", align.VerifDnaMatrixPos())
		pos("prot_to_matrix_pos", align.VerifProtMatrixPos())
		if err := mat("dnafull_subst_matrix", align.VerifDnaFullMatrix()); err != nil {
			return err
		}
		if err := mat("blosum62_subst_matrix", align.VerifBlosum62Matrix()); err != nil {
			return err
		}
	}
	if err := writeIfChanged(filepath.Join(out, "Subst.v"), b.Bytes()); err != nil {
		return err
	}

	// --- Alpha.v --------------------------------------------------------------
	b.Reset()
	b.WriteString(genHeader)
	fmt.Fprintf(&b, "Definition stdaminoacid : list byte := %s.\n", byteListLit(align.VerifStdAminoAcids()))
	fmt.Fprintf(&b, "Definition stdnucleotides : list byte := %s.\n", byteListLit(align.VerifStdNucleotides()))
	fmt.Fprintf(&b, "Definition AMINOACIDS : Z := %s.\nDefinition NUCLEOTIDS : Z := %s.\nDefinition BOTH : Z := %s.\nDefinition UNKNOWN : Z := %s.\n",
		coqZ(align.AMINOACIDS), coqZ(align.NUCLEOTIDS), coqZ(align.BOTH), coqZ(align.UNKNOWN))
	fmt.Fprintf(&b, "Definition GAP : byte := %s.\nDefinition POINT : byte := %s.\nDefinition OTHER : byte := %s.\nDefinition ALL_AMINO : byte := %s.\nDefinition ALL_NUCLE : byte := %s.\n",
		coqByte(align.GAP), coqByte(align.POINT), coqByte(align.OTHER), coqByte(align.ALL_AMINO), coqByte(align.ALL_NUCLE))
	fmt.Fprintf(&b, "Definition IGNORE_NONE : Z := %s.\nDefinition IGNORE_NAME : Z := %s.\nDefinition IGNORE_SEQUENCE : Z := %s.\n",
		coqZ(align.IGNORE_NONE), coqZ(align.IGNORE_NAME), coqZ(align.IGNORE_SEQUENCE))
	if err := writeIfChanged(filepath.Join(out, "Alpha.v"), b.Bytes()); err != nil {
		return err
	}

	// --- IOConst.v ------------------------------------------------------------
	b.Reset()
	b.WriteString(genHeader)
	fmt.Fprintf(&b, "Definition FASTA_LINE : nat := %d.\nDefinition PHYLIP_LINE : nat := %d.\nDefinition PHYLIP_BLOCK : nat := %d.\nDefinition CLUSTAL_LINE : nat := %d.\nDefinition PAML_LINE : nat := %d.\nDefinition PAML_BLOCK : nat := %d.\n",
		fasta.FASTA_LINE, phylip.PHYLIP_LINE, phylip.PHYLIP_BLOCK, clustal.CLUSTAL_LINE, paml.PAML_LINE, paml.PAML_BLOCK)
	fmt.Fprintf(&b, "Definition GOALIGN_VERSION : list byte := %s.\n", byteListLit([]byte(version.Version)))
	if err := writeIfChanged(filepath.Join(out, "IOConst.v"), b.Bytes()); err != nil {
		return err
	}

	// --- Groups.v (conservation groups of SiteConservation) ---------------------
	b.Reset()
	b.WriteString(genHeader)
	strong, weak := align.VerifConservationGroups()
	grp := func(name string, gs [][]uint8) {
		it := make([]string, len(gs))
		for i, g := range gs {
			it[i] = byteListLit(g)
		}
		fmt.Fprintf(&b, "Definition %s : list (list byte) := [%s].\n", name, strings.Join(it, "; "))
	}
	grp("strong_groups", strong)
	grp("weak_groups", weak)
	if err := writeIfChanged(filepath.Join(out, "Groups.v"), b.Bytes()); err != nil {
		return err
	}
	return nil
}
