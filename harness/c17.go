package main

// C17: protein distances are likelihood maximisers forming a sane matrix.

import (
	"fmt"
	"math"
	"math/rand"
	"strings"

	"github.com/evolbioinfo/goalign/align"
	protdist "github.com/evolbioinfo/goalign/distance/protein"
	"gonum.org/v1/gonum/mat"
)

func init() { register("c17", c17) }

const aaLetters = "ARNDCQEGHILKMFPSTWYV"

type c17case struct {
	names, seqs []string
	model       int
	modelfreqs  bool
	gamma       bool
	alpha       dyadic
	rmgaps      bool
	weights     []dyadic // nil = none
	warm        bool     // the model object first serves another alignment (InitModel twice)
}

func (cs *c17case) run(names, seqs []string, weights []dyadic) (dist *mat.Dense, m *protdist.ProtDistModel, err error) {
	al, e := mkAlign(align.AMINOACIDS, names, seqs)
	if e != nil {
		return nil, nil, e
	}
	var ws []float64
	if weights != nil {
		ws = make([]float64, len(weights))
		for i, w := range weights {
			ws[i] = w.f()
		}
	}
	m, e = protdist.NewProtDistModel(cs.model, cs.modelfreqs, cs.gamma, cs.alpha.f(), cs.rmgaps)
	if e != nil {
		return nil, nil, e
	}
	if cs.warm {
		if wa, we := mkAlign(align.AMINOACIDS, []string{"w0", "w1", "w2"}, []string{"ACDEFGHIKLWWYV", "ACDEFGHIKVWWYV", "ACDDFGHIKVWAYV"}); we == nil {
			if m.InitModel(wa, nil) == nil {
				m.MLDist(wa, nil)
			}
		}
	}
	if e = m.InitModel(al, ws); e != nil {
		return nil, m, e
	}
	_, _, dist, err = m.MLDist(al, ws)
	return
}

func denseTerm(d *mat.Dense, n int) string {
	if d == nil {
		return "[]"
	}
	rows := make([]string, n)
	for i := 0; i < n; i++ {
		it := make([]string, n)
		for j := 0; j < n; j++ {
			it[j] = flTerm(d.At(i, j))
		}
		rows[i] = coqList(it)
	}
	return coqList(rows)
}

func natList(l []int) string {
	it := make([]string, len(l))
	for i, x := range l {
		it[i] = fmt.Sprintf("%d%%nat", x)
	}
	return coqList(it)
}

func c17(args []string) error {
	g, err := parseGenFlags("c17", args)
	if err != nil {
		return err
	}
	r := rand.New(rand.NewSource(g.seed))
	w := newCaseWriter("C17")
	stats := map[string]int{}
	for i := 0; i < g.n; i++ {
		cs := &c17case{}
		cs.warm = r.Intn(4) == 0
		nrows := 2 + r.Intn(3)
		L := 6 + r.Intn(19)
		anc := make([]byte, L)
		for k := range anc {
			anc[k] = aaLetters[r.Intn(20)]
		}
		class := r.Intn(6)
		allGapped := r.Intn(12) == 0
		rate := []float64{0, 0.03, 0.1, 0.2, 0.4, 0.15}[class]
		cs.names = distinctNames(r, nrows)
		for a := 0; a < nrows; a++ {
			s := append([]byte{}, anc...)
			for k := range s {
				if r.Float64() < rate {
					s[k] = aaLetters[r.Intn(20)]
				}
				if x := r.Intn(40); x < 3 && class != 0 {
					s[k] = "-X*"[x]
				}
			}
			if class == 5 && a > 0 && r.Intn(2) == 0 { // an exact copy of an earlier row, possibly with masked sites
				s = []byte(cs.seqs[r.Intn(a)])
				if r.Intn(2) == 0 {
					s[r.Intn(L)] = "-X"[r.Intn(2)]
				}
			}
			cs.seqs = append(cs.seqs, string(s))
		}
		if allGapped { // every column holds a gap in some row: nothing survives gap-site removal
			for k := 0; k < L; k++ {
				a := r.Intn(nrows)
				b := []byte(cs.seqs[a])
				b[k] = '-'
				cs.seqs[a] = string(b)
			}
		}
		longPair := r.Intn(15) == 0
		if longPair {
			// two long, nearly identical rows whose few differences are rare exchanges: the per-pair
			// probabilities P_ij(d) are tiny and the maximiser is a small distance
			L = []int{1500, 3000, 1500}[r.Intn(3)]
			anc = []byte(strings.Repeat("ARNDCQEGHILKMFPSTWYV", L/20))
			L = len(anc)
			other := append([]byte{}, anc...)
			for q := 0; q < 1+r.Intn(2); q++ {
				pr := []string{"CW", "DW", "MW", "CK", "NC", "CQ", "CE", "WC", "FC"}[r.Intn(9)]
				pos := strings.IndexByte("ARNDCQEGHILKMFPSTWYV", pr[0]) + 20*r.Intn(L/20)
				other[pos] = pr[1]
			}
			cs.names = []string{"long1", "long2"}
			cs.seqs = []string{string(anc), string(other)}
			nrows = 2
			allGapped = false
		}
		cs.model = r.Intn(7)
		cs.modelfreqs = r.Intn(2) == 0
		if longPair {
			cs.modelfreqs = true
		}
		cs.gamma = r.Intn(3) == 0
		cs.alpha = []dyadic{{1, 2}, {1, 1}, {2, 1}, {3, 4}}[r.Intn(4)]
		cs.rmgaps = r.Intn(3) == 0 || (allGapped && r.Intn(2) == 0)
		if r.Intn(3) == 0 {
			cs.weights = make([]dyadic, L)
			for k := range cs.weights {
				cs.weights[k] = []dyadic{{1, 1}, {2, 1}, {1, 2}, {3, 1}, {1, 4}, {5, 2}}[r.Intn(6)]
			}
		}
		dist, model, e := cs.run(cs.names, cs.seqs, cs.weights)
		meta := map[string]interface{}{"op": "MLDist", "model": cs.model, "modelfreqs": cs.modelfreqs, "gamma": cs.gamma, "alpha": cs.alpha.f(),
			"rmgaps": cs.rmgaps, "weights": cs.weights != nil, "names": cs.names, "seqs": cs.seqs, "class": class, "allgapped": allGapped && cs.rmgaps}
		wsTerm := "None"
		if cs.weights != nil {
			it := make([]string, L)
			for k, x := range cs.weights {
				it[k] = x.coq()
			}
			wsTerm = "(Some " + coqList(it) + ")"
		}
		head := fmt.Sprintf("mk %s %d %v %v %s %v %s", coqRows(cs.names, cs.seqs), cs.model, cs.modelfreqs, cs.gamma, cs.alpha.coq(), cs.rmgaps, wsTerm)
		if e != nil || dist == nil {
			msg := ""
			if e != nil {
				msg = e.Error()
			}
			meta["msg"] = msg
			w.add(head+" true [] [] [] [] [] [] [] [] []", meta)
			stats["error"]++
			continue
		}
		// signature of the recorded finding: the only out-of-range entries are -1, exactly at the pairs
		// without any counted site
		{
			minus, nosite, other := 0, 0, 0
			for j := 0; j < nrows; j++ {
				for k := j + 1; k < nrows; k++ {
					counted := 0
					for l := 0; l < L; l++ {
						keep := true
						if cs.rmgaps {
							for a := 0; a < nrows; a++ {
								if strings.IndexByte(aaLetters, cs.seqs[a][l]) < 0 {
									keep = false
								}
							}
						}
						if keep && strings.IndexByte(aaLetters, cs.seqs[j][l]) >= 0 && strings.IndexByte(aaLetters, cs.seqs[k][l]) >= 0 {
							counted++
						}
					}
					d := dist.At(j, k)
					switch {
					case d == -1 && counted == 0:
						minus++
					case d < 0 || d > 20:
						other++
					}
					if counted == 0 {
						nosite++
					}
				}
			}
			if minus > 0 && other == 0 {
				meta["sig"] = "minus-one-only-at-pairs-without-counted-site"
			} else {
				meta["sig"] = "none"
			}
		}
		pm := model.VerifModel()
		piT := make([]string, 20)
		for k := 0; k < 20; k++ {
			piT[k] = flTerm(pm.Pi(k))
		}
		// relations
		rp := r.Perm(nrows)
		pn, ps := make([]string, nrows), make([]string, nrows)
		for a := range rp {
			pn[a], ps[a] = cs.names[rp[a]], cs.seqs[rp[a]]
		}
		distR, _, eR := cs.run(pn, ps, cs.weights)
		cp := r.Perm(L)
		cseqs := make([]string, nrows)
		for a := range cseqs {
			b := make([]byte, L)
			for k := range b {
				b[k] = cs.seqs[a][cp[k]]
			}
			cseqs[a] = string(b)
		}
		var cw []dyadic
		if cs.weights != nil {
			cw = make([]dyadic, L)
			for k := range cw {
				cw[k] = cs.weights[cp[k]]
			}
		}
		distC, _, eC := cs.run(cs.names, cseqs, cw)
		if eR != nil {
			distR = nil
		}
		if eC != nil {
			distC = nil
		}
		// independent transition probabilities from the exported eigen-decomposition
		U, V, R := pm.ReigenVects(), pm.LeigenVects(), pm.Eval()
		pmat := func(d float64) [20][20]float64 {
			if d < 1e-8 {
				d = 1e-8
			} else if d > 100 {
				d = 100
			}
			var ex [20]float64
			for k := 0; k < 20; k++ {
				if cs.gamma {
					a := cs.alpha.f()
					ex[k] = math.Pow(a/(a-R[k]*d), a)
				} else {
					ex[k] = math.Exp(R[k] * d)
				}
			}
			var P [20][20]float64
			for a := 0; a < 20; a++ {
				for b := 0; b < 20; b++ {
					v := 0.0
					for k := 0; k < 20; k++ {
						v += U.At(a, k) * ex[k] * V.At(k, b)
					}
					if v < 2.2250738585072014e-308 {
						v = 2.2250738585072014e-308
					}
					P[a][b] = v
				}
			}
			return P
		}
		pairs := []string{}
		mlsig := "none"
		for j := 0; j < nrows; j++ {
			for k := j + 1; k < nrows; k++ {
				ds := dist.At(j, k)
				probes := []float64{ds}
				if ds > 0 && ds < 20 {
					probes = append(probes, ds*0.99, ds*1.01, ds*0.9, ds*1.1, ds*0.5, ds*2, 0.02, 0.1, 0.5, 2, 8, 19)
				}
				Ps := make([][20][20]float64, len(probes))
				for q, d := range probes {
					Ps[q] = pmat(d)
				}
				seen := map[[2]int]bool{}
				cells := []string{}
				for l := 0; l < L; l++ {
					a := strings.IndexByte(aaLetters, cs.seqs[j][l])
					b := strings.IndexByte(aaLetters, cs.seqs[k][l])
					if a < 0 || b < 0 || seen[[2]int{a, b}] {
						continue
					}
					seen[[2]int{a, b}] = true
					lts := make([]string, len(probes))
					for q := range probes {
						lts[q] = flTerm(math.Log(pm.Pi(a) * Ps[q][a][b]))
					}
					cells = append(cells, fmt.Sprintf("(%d%%nat, %d%%nat, %s)", a, b, coqList(lts)))
				}
				// signature of the recorded finding: the reported distance is a local maximum (all neighbour
				// probes at +-1% and +-10% are lower) but a farther distance (x0.5, x2 or a grid point) has a higher likelihood
				if len(probes) > 7 {
					ll := make([]float64, len(probes))
					for l := 0; l < L; l++ {
						keep := true
						if cs.rmgaps {
							for a := 0; a < nrows; a++ {
								if strings.IndexByte(aaLetters, cs.seqs[a][l]) < 0 {
									keep = false
								}
							}
						}
						a := strings.IndexByte(aaLetters, cs.seqs[j][l])
						b := strings.IndexByte(aaLetters, cs.seqs[k][l])
						if !keep || a < 0 || b < 0 {
							continue
						}
						wt := 1.0
						if cs.weights != nil {
							wt = cs.weights[l].f()
						}
						for q := range probes {
							ll[q] += wt * math.Log(pm.Pi(a)*Ps[q][a][b])
						}
					}
					tot := 0.0
					for q := range ll {
						if q > 0 && math.Abs(ll[q]) > tot {
							tot = math.Abs(ll[q])
						}
					}
					near1, near10, far := false, false, false
					for q := 1; q < len(probes); q++ {
						if ll[q] > ll[0]+1e-9*tot {
							switch {
							case q <= 2:
								near1 = true
							case q <= 4:
								near10 = true
							default:
								far = true
							}
						}
					}
					switch {
					case near10 && ds <= 5e-4 && mlsig != "not-a-local-maximum":
						// the absolute stopping tolerance (1e-6 between successive evaluations) on a tiny distance: the better
						// probe at +-10 % is at most 5e-5 away
						mlsig = "stopped-within-5e-5-of-a-better-distance"
					case near10:
						mlsig = "not-a-local-maximum"
					case near1 && mlsig != "not-a-local-maximum" && mlsig != "stopped-within-5e-5-of-a-better-distance":
						// a probe at +-1% is better but none at +-10%: the search stopped close to a maximum
						mlsig = "stopped-within-10pct-of-a-maximum"
					case far && mlsig == "none":
						mlsig = "local-maximum-below-a-grid-point"
					}
				}
				pt := make([]string, len(probes))
				for q, d := range probes {
					pt[q] = flTerm(d)
				}
				pairs = append(pairs, fmt.Sprintf("(%d%%nat, %d%%nat, %s, %s)", j, k, coqList(pt), coqList(cells)))
			}
		}
		meta["mlsig"] = mlsig
		Ph := pmat(0.5)
		prow, pcol := make([]string, 20), make([]string, 20)
		for k := 0; k < 20; k++ {
			prow[k], pcol[k] = flTerm(Ph[0][k]), flTerm(Ph[k][0])
		}
		w.add(fmt.Sprintf("%s false %s %s %s %s %s %s %s %s %s", head, denseTerm(dist, nrows), coqList(piT),
			natList(rp), denseTerm(distR, nrows), natList(cp), denseTerm(distC, nrows), coqList(pairs), coqList(prow), coqList(pcol)), meta)
		stats[fmt.Sprintf("class-%d", class)]++
		if cs.rmgaps {
			stats["rmgaps"]++
		}
		if !cs.modelfreqs {
			stats["empirical-freqs"]++
		}
	}
	if g.only >= 0 {
		w.terms = w.terms[g.only : g.only+1]
		w.meta = w.meta[g.only : g.only+1]
	}
	if err := w.flush(g.out, "C17", g.per); err != nil {
		return err
	}
	writeStats(g.out, stats)
	return nil
}
