// Verification harness for goalign: table translator, correspondence case
// generators (one sub-command per property), replay.
//
// usage: harness <subcommand> [flags]
package main

import (
	"fmt"
	"os"
	"sort"
)

type subcmd func(args []string) error

var subcommands = map[string]subcmd{}

func register(name string, f subcmd) { subcommands[name] = f }

func main() {
	if len(os.Args) < 2 {
		names := []string{}
		for k := range subcommands {
			names = append(names, k)
		}
		sort.Strings(names)
		fmt.Fprintln(os.Stderr, "usage: harness <subcommand> ...; subcommands:", names)
		os.Exit(2)
	}
	f, ok := subcommands[os.Args[1]]
	if !ok {
		fmt.Fprintln(os.Stderr, "unknown subcommand", os.Args[1])
		os.Exit(2)
	}
	if err := f(os.Args[2:]); err != nil {
		fmt.Fprintln(os.Stderr, "harness error:", err)
		os.Exit(3)
	}
}
