package main

// C05: translation.

import (
	"fmt"
	"math/rand"
	"strings"

	"github.com/evolbioinfo/goalign/align"
)

func init() { register("c05", c05) }

const c05Alphabet = "ACGTURYSWKMBDHVNacgturyswkmbdhvn-Xx?.*"

func randResidueNt(r *rand.Rand) byte {
	x := r.Intn(100)
	switch {
	case x < 60:
		return "ACGT"[r.Intn(4)]
	case x < 70:
		return "acgtu"[r.Intn(5)]
	case x < 82:
		return "RYSWKMBDHVNU"[r.Intn(12)]
	case x < 86:
		return "ryswkmbdhvn"[r.Intn(11)]
	case x < 96:
		return '-'
	default:
		return "Xx?N"[r.Intn(4)]
	}
}

func randPlainNt(r *rand.Rand) byte {
	if r.Intn(12) == 0 {
		return "RYNacgt"[r.Intn(7)]
	}
	return "ACGT"[r.Intn(4)]
}

func c05(args []string) error {
	g, err := parseGenFlags("c05", args)
	if err != nil {
		return err
	}
	r := rand.New(rand.NewSource(g.seed))
	w := newCaseWriter("C05")
	stats := map[string]int{}
	thorough := g.tier == "thorough"

	add := func(opname, opterm string, class string, outNames, outSeqs []string, alpha, length int, meta map[string]interface{}) {
		term := fmt.Sprintf("mk (%s) %s %s %s %s", opterm, coqBool(class != OutOk), coqRows(outNames, outSeqs), coqZ(alpha), coqZ(length))
		meta["op"] = opname
		meta["opterm"] = opterm
		meta["class"] = class
		meta["out_names"] = outNames
		meta["out_seqs"] = outSeqs
		meta["out_alpha"] = alpha
		meta["out_len"] = length
		w.add(term, meta)
		stats[opname+":"+class]++
	}

	// (1) exhaustive codons over the property's residue alphabet through the public Sequence.Translate
	for i := 0; i < len(c05Alphabet); i++ {
		for j := 0; j < len(c05Alphabet); j++ {
			for gc := 0; gc < 3; gc++ {
				if !thorough && (i+j+int(g.seed))%3 != gc {
					continue
				}
				var sb strings.Builder
				for k := 0; k < len(c05Alphabet); k++ {
					sb.WriteByte(c05Alphabet[i])
					sb.WriteByte(c05Alphabet[j])
					sb.WriteByte(c05Alphabet[k])
				}
				s := align.NewSequence("s", []uint8(sb.String()), "")
				var out string
				class, _ := guarded(5e9, func() error {
					tr, e := s.Translate(0, gc)
					if e == nil {
						out = tr.Sequence()
					}
					return e
				})
				add("SeqTranslateCodons", fmt.Sprintf("OpSeq %s %s %s", coqZ(gc), coqZ(0), coqStr(sb.String())), class,
					[]string{""}, []string{out}, -1, -2, map[string]interface{}{"gc": gc, "phase": 0, "seq": sb.String()})
			}
		}
	}
	// (2) arbitrary bytes through translateCodon (hook): b1, b2 random over all bytes, b3 over all 256
	all := make([]byte, 256)
	for i := range all {
		all[i] = byte(i)
	}
	ncod := 60
	if thorough {
		ncod = 3000
	}
	for i := 0; i < ncod; i++ {
		gc := r.Intn(3)
		var b1, b2 byte
		if r.Intn(2) == 0 {
			b1, b2 = byte(r.Intn(256)), c05Alphabet[r.Intn(len(c05Alphabet))]
		} else {
			b1, b2 = c05Alphabet[r.Intn(len(c05Alphabet))], byte(r.Intn(256))
		}
		out := make([]byte, 256)
		class, _ := guarded(5e9, func() error {
			for k := 0; k < 256; k++ {
				aa, e := align.VerifTranslateCodon(b1, b2, byte(k), gc)
				if e != nil {
					return e
				}
				out[k] = aa
			}
			return nil
		})
		add("translateCodon", fmt.Sprintf("OpCodonRow %s %s %s %s", coqZ(gc), coqByte(b1), coqByte(b2), coqBytes(all)), class,
			[]string{""}, []string{string(out)}, -1, -2, map[string]interface{}{"gc": gc, "b1": int(b1), "b2": int(b2)})
	}

	// (3) random sequences / bags / alignments
	for i := 0; i < g.n; i++ {
		gc := r.Intn(3)
		if r.Intn(40) == 0 {
			gc = 3 + r.Intn(2)
		}
		switch r.Intn(6) {
		case 0: // Sequence.Translate
			L := randLen(r, 40)
			gen := randResidueNt
			if r.Intn(20) == 0 {
				gen = func(r *rand.Rand) byte { return "ACGTQEILFPZ!"[r.Intn(12)] }
			}
			sq := randSeq(r, L, gen)
			phase := r.Intn(3)
			if r.Intn(15) == 0 {
				phase = 3 + r.Intn(3)
			}
			s := align.NewSequence("s", []uint8(sq), "")
			var out string
			class, _ := guarded(5e9, func() error {
				tr, e := s.Translate(phase, gc)
				if e == nil {
					out = tr.Sequence()
				}
				return e
			})
			add("Sequence.Translate", fmt.Sprintf("OpSeq %s %s %s", coqZ(gc), coqZ(phase), coqStr(sq)), class,
				[]string{""}, []string{out}, -1, -2, map[string]interface{}{"gc": gc, "phase": phase, "seq": sq})
		case 1, 2: // SeqBag.Translate / Alignment.Translate
			nseq := 1 + r.Intn(4)
			names := distinctNames(r, nseq)
			isAlign := r.Intn(2) == 0
			L := 3 + r.Intn(30)
			if r.Intn(8) == 0 {
				L = r.Intn(6)
			}
			seqs := make([]string, nseq)
			for k := range seqs {
				l := L
				if !isAlign {
					l = 2 + r.Intn(30)
				}
				seqs[k] = randSeq(r, l, randResidueNt)
			}
			alpha := align.NUCLEOTIDS
			if r.Intn(12) == 0 {
				alpha = []int{align.AMINOACIDS, align.UNKNOWN}[r.Intn(2)]
			}
			phase := r.Intn(4) - 1
			var sb align.SeqBag
			var al align.Alignment
			if isAlign {
				a, e := mkAlign(alpha, names, seqs)
				if e != nil {
					continue
				}
				al = a
				sb = a
			} else {
				sb = mkSeqBag(alpha, names, seqs)
			}
			inNames, inSeqs := alignContent(sb)
			class, _ := guarded(5e9, func() error {
				if isAlign {
					return al.Translate(phase, gc)
				}
				return sb.Translate(phase, gc)
			})
			outNames, outSeqs := alignContent(sb)
			opn, opc, ln := "SeqBag.Translate", "OpBag", -2
			if isAlign {
				opn, opc, ln = "Alignment.Translate", "OpAlign", al.Length()
			}
			add(opn, fmt.Sprintf("%s %s %s %s %s", opc, coqZ(alpha), coqZ(gc), coqZ(phase), coqRows(inNames, inSeqs)), class,
				outNames, outSeqs, sb.Alphabet(), ln, map[string]interface{}{"gc": gc, "phase": phase, "alphabet": alpha, "names": inNames, "seqs": inSeqs})
		case 3: // CodonAlign on translations with gaps inserted
			gcv := gc % 3
			nseq := 1 + r.Intn(4)
			names := distinctNames(r, nseq)
			naa := 1 + r.Intn(8)
			ngapcols := r.Intn(4)
			nts := make([]string, nseq)
			prots := make([]string, nseq)
			for k := range nts {
				extra := r.Intn(3)
				if r.Intn(12) == 0 {
					extra = 3 + r.Intn(3) // too long: error expected
				}
				nts[k] = randSeq(r, 3*naa+extra, randPlainNt)
				if r.Intn(15) == 0 && len(nts[k]) > 3 {
					nts[k] = nts[k][:len(nts[k])-3-r.Intn(2)] // too short
				}
				s := align.NewSequence("s", []uint8(nts[k][:3*naa-func() int {
					if len(nts[k]) < 3*naa {
						return 3*naa - len(nts[k]) + (len(nts[k]) % 3)
					}
					return 0
				}()]), "")
				tr, e := s.Translate(0, gcv)
				p := ""
				if e == nil {
					p = tr.Sequence()
				}
				for len(p) < naa {
					p += "-"
				}
				prots[k] = p
			}
			// insert gap columns / per-row gaps keeping rows equal length
			for c := 0; c < ngapcols; c++ {
				for k := range prots {
					pos := r.Intn(len(prots[k]) + 1)
					prots[k] = prots[k][:pos] + "-" + prots[k][pos:]
				}
			}
			palpha, ntalpha := align.AMINOACIDS, align.NUCLEOTIDS
			if r.Intn(15) == 0 {
				palpha = align.NUCLEOTIDS
			}
			if r.Intn(15) == 0 {
				ntalpha = align.UNKNOWN
			}
			pa, e := mkAlign(palpha, names, prots)
			if e != nil {
				continue
			}
			ntnames := append([]string{}, names...)
			if r.Intn(10) == 0 {
				ntnames[r.Intn(nseq)] = "missing"
			}
			perm := r.Perm(nseq)
			pn, ps := make([]string, nseq), make([]string, nseq)
			for k, q := range perm {
				pn[k], ps[k] = ntnames[q], nts[q]
			}
			nb := mkSeqBag(ntalpha, pn, ps)
			ntN, ntS := alignContent(nb)
			pN, pS := alignContent(pa)
			var res align.Alignment
			class, _ := guarded(5e9, func() error {
				var e error
				res, e = pa.CodonAlign(nb)
				return e
			})
			outNames, outSeqs := []string{}, []string{}
			if class == OutOk && res != nil {
				outNames, outSeqs = alignContent(res)
			}
			add("CodonAlign", fmt.Sprintf("OpCodonAlign %s %s %s %s %s", coqZ(gcv), coqZ(palpha), coqZ(ntalpha), coqRows(pN, pS), coqRows(ntN, ntS)), class,
				outNames, outSeqs, -1, -2, map[string]interface{}{"gc": gcv, "prot_names": pN, "prot": pS, "nt_names": ntN, "nt": ntS})
		default: // TranslateByReference
			nseq := 1 + r.Intn(4)
			names := distinctNames(r, nseq)
			L := r.Intn(28)
			mode := r.Intn(3)
			seqs := make([]string, nseq)
			for k := range seqs {
				switch mode {
				case 0: // no gaps at all
					seqs[k] = randSeq(r, L, randPlainNt)
				default:
					seqs[k] = randSeq(r, L, func(r *rand.Rand) byte {
						if r.Intn(4) == 0 {
							return '-'
						}
						return randPlainNt(r)
					})
				}
			}
			if mode == 2 && L > 6 { // gap runs in the reference
				b := []byte(seqs[0])
				st := r.Intn(L - 3)
				for q := st; q < st+1+r.Intn(6) && q < L; q++ {
					b[q] = '-'
				}
				seqs[0] = string(b)
			}
			alpha := align.NUCLEOTIDS
			if r.Intn(15) == 0 {
				alpha = align.AMINOACIDS
			}
			a, e := mkAlign(alpha, names, seqs)
			if e != nil {
				continue
			}
			refname := names[0]
			if r.Intn(3) == 0 {
				refname = names[r.Intn(nseq)]
			}
			if r.Intn(15) == 0 {
				refname = []string{"", "nosuch"}[r.Intn(2)]
			}
			phase := r.Intn(3)
			if r.Intn(2) == 0 {
				phase = 0
			}
			inNames, inSeqs := alignContent(a)
			class, _ := guarded(5e9, func() error { return a.TranslateByReference(phase, gc, refname) })
			outNames, outSeqs := alignContent(a)
			add("TranslateByReference", fmt.Sprintf("OpByRef %s %s %s %s %s", coqZ(alpha), coqZ(gc), coqZ(phase), coqStr(refname), coqRows(inNames, inSeqs)), class,
				outNames, outSeqs, -1, -2, map[string]interface{}{"gc": gc, "phase": phase, "alphabet": alpha, "ref": refname, "names": inNames, "seqs": inSeqs})
		}
	}
	if g.only >= 0 {
		w.terms = w.terms[g.only : g.only+1]
		w.meta = w.meta[g.only : g.only+1]
	}
	if err := w.flush(g.out, "C05", g.per); err != nil {
		return err
	}
	writeStats(g.out, stats)
	return nil
}
