package main

// C13: de-duplication and site compression.

import (
	"bytes"
	"fmt"
	"math/rand"
	"os"
	"os/exec"
	"path/filepath"
	"strings"

	"github.com/evolbioinfo/goalign/align"
	"github.com/evolbioinfo/goalign/io/fasta"
)

func init() { register("c13", c13) }

func c13(args []string) error {
	g, err := parseGenFlags("c13", args)
	if err != nil {
		return err
	}
	r := rand.New(rand.NewSource(g.seed))
	w := newCaseWriter("C13")
	stats := map[string]int{}

	groupsTerm := func(gr [][]string) string {
		it := []string{}
		for _, g := range gr {
			it = append(it, coqStrList(g))
		}
		return coqList(it)
	}

	for i := 0; i < g.n; i++ {
		kind := r.Intn(3)
		nseq := randLen(r, 6)
		L := randLen(r, 12)
		// one very wide alignment with a dominant column pattern: multiplicities beyond 16 bits
		wide := i == g.n-1 && g.n >= 10 && g.only < 0 && os.Getenv("VERIF_NO_WIDE") == ""
		if wide {
			kind, nseq, L = 2, 1+r.Intn(2), 65536+r.Intn(70000)
		}
		names := distinctNames(r, nseq)
		seqs := make([]string, nseq)
		alphaLetters := "AC-NXnx"
		mode := r.Intn(5) // 0: all identical, 1: all distinct-ish, 2: few patterns, 3: N/gap variants, 4: random
		base := randSeq(r, L, func(r *rand.Rand) byte { return alphaLetters[r.Intn(len(alphaLetters))] })
		for k := range seqs {
			switch mode {
			case 0:
				seqs[k] = base
			case 2:
				b := []byte(base)
				if L > 0 && r.Intn(2) == 0 {
					b[r.Intn(L)] = "AC"[r.Intn(2)]
				}
				seqs[k] = string(b)
			case 3:
				b := []byte(base)
				for j := range b {
					if (b[j] == 'N' || b[j] == 'X' || b[j] == '-') && r.Intn(2) == 0 {
						b[j] = "NX-"[r.Intn(3)]
					}
				}
				seqs[k] = string(b)
			default:
				seqs[k] = randSeq(r, L, func(r *rand.Rand) byte { return "AC-"[r.Intn(3)] })
			}
		}
		// more than a hundred distinct sequences, then copies of early ones: the group of an early representative keeps
		// growing after the list of groups was reallocated
		many := (i == g.n-2 || r.Intn(80) == 0) && g.n >= 10 && kind != 2 && !wide
		if many {
			nd := 101 + r.Intn(60)
			nseq = nd + 5 + r.Intn(25)
			L = 7
			names = distinctNames(r, nseq)
			seqs = make([]string, nseq)
			for k := 0; k < nseq; k++ {
				idx := k
				if k >= nd || (k > 20 && r.Intn(12) == 0) {
					idx = r.Intn(40) // a copy of an early sequence
				}
				b := make([]byte, L)
				for j := range b {
					b[j] = "ACGT"[(idx>>(2*uint(j)))&3]
				}
				seqs[k] = string(b)
			}
		}
		if kind == 2 { // Compress: few column patterns, repeated
			npat := 1 + r.Intn(3)
			pats := make([][]byte, npat)
			for p := range pats {
				pats[p] = []byte(randSeq(r, nseq, func(r *rand.Rand) byte { return "AC-G"[r.Intn(4)] }))
			}
			bs := make([][]byte, nseq)
			for k := range bs {
				bs[k] = make([]byte, L)
			}
			for j := 0; j < L; j++ {
				p := pats[r.Intn(npat)]
				if wide {
					p = pats[0]
				}
				if (!wide && r.Intn(6) == 0) || (wide && r.Intn(3000) == 0) {
					p = []byte(randSeq(r, nseq, func(r *rand.Rand) byte { return "ACGT-"[r.Intn(5)] }))
				}
				for k := 0; k < nseq; k++ {
					bs[k][j] = p[k]
				}
			}
			for k := range seqs {
				seqs[k] = string(bs[k])
			}
		}
		alpha := []int{align.NUCLEOTIDS, align.AMINOACIDS, align.UNKNOWN}[r.Intn(3)]
		if kind == 0 && !many && r.Intn(3) == 0 {
			// plainly nucleotide rows (N and gaps, no X): the command line detects the same alphabet, so that
			// goalign dedup [--unaligned] [--n-as-gap] is comparable with the library call
			alpha = align.NUCLEOTIDS
			for k := range seqs {
				seqs[k] = strings.NewReplacer("X", "N", "x", "n").Replace(seqs[k])
			}
		}
		if kind == 2 {
			alpha = align.NUCLEOTIDS
		}
		isAlign := kind == 2 || r.Intn(2) == 0
		var sb align.SeqBag
		var al align.Alignment
		if isAlign {
			a, e := mkAlign(alpha, names, seqs)
			if e != nil {
				continue
			}
			al, sb = a, a
		} else {
			// a bag may hold sequences of different lengths
			for k := range seqs {
				if r.Intn(4) == 0 && len(seqs[k]) > 0 {
					seqs[k] = seqs[k][:r.Intn(len(seqs[k]))]
				}
			}
			sb = mkSeqBag(alpha, names, seqs)
		}
		inN, inS := alignContent(sb)
		nag := r.Intn(2) == 0
		var groups [][]string
		var weights []int
		var opterm, opname string
		class, _ := guarded(5e9, func() error {
			var e error
			switch kind {
			case 0:
				opname, opterm = "Deduplicate", "OpDedup "+coqBool(nag)
				groups, e = sb.Deduplicate(nag)
			case 1:
				opname, opterm = "Deduplicate.Deduplicate", "OpDedupTwice "+coqBool(nag)
				if _, e = sb.Deduplicate(nag); e == nil {
					groups, e = sb.Deduplicate(nag)
				}
			case 2:
				opname, opterm = "Compress", "OpCompress"
				weights = al.Compress()
			}
			return e
		})
		outN, outS := alignContent(sb)
		ln := -2
		if isAlign {
			ln = al.Length()
		}
		if kind != 2 {
			ln = 0
		}
		if groups == nil {
			groups = [][]string{}
		}
		term := fmt.Sprintf("mk %s %s (%s) %s %s %s %s %s", coqZ(alpha), coqRows(inN, inS), opterm, coqBool(class != OutOk),
			coqRows(outN, outS), groupsTerm(groups), coqZList(intsOf(weights)), coqZ(ln))
		w.add(term, map[string]interface{}{"op": opname, "alphabet": alpha, "names": inN, "seqs": inS, "nasgap": nag, "class": class,
			"out_names": outN, "out_seqs": outS, "groups": groups, "weights": intsOf(weights), "is_align": isAlign})
		stats[opname]++
		// the same de-duplication through the command line: goalign dedup [--unaligned] [--n-as-gap]
		if bin := os.Getenv("VERIF_GOALIGN_BIN"); bin != "" && kind == 0 && class == OutOk && len(inN) > 0 && !many && r.Intn(3) == 0 {
			okIn := true
			for k := range inN {
				if len(inS[k]) == 0 || strings.ContainsAny(inN[k], " \t>\r\n") || len(inN[k]) == 0 {
					okIn = false
				}
			}
			if okIn { // the command detects the alphabet from the file: only when it finds the one used here
				probe := mkSeqBag(alpha, inN, inS)
				probe.AutoAlphabet()
				okIn = probe.Alphabet() == alpha
			}
			if !okIn {
				// nothing to run (and no directory to leave behind)
			} else if tmpd, e := os.MkdirTemp("", "c13cli"); e == nil {
				inf := filepath.Join(tmpd, "in.fa")
				var b strings.Builder
				for k := range inN {
					fmt.Fprintf(&b, ">%s\n%s\n", inN[k], inS[k])
				}
				os.WriteFile(inf, []byte(b.String()), 0644)
				args := []string{"dedup", "-i", inf}
				if !isAlign || r.Intn(2) == 0 {
					args = append(args, "--unaligned")
				}
				if nag {
					args = append(args, "--n-as-gap")
				}
				cmd := exec.Command(bin, args...)
				var stdout bytes.Buffer
				cmd.Stdout = &stdout
				runErr := cmd.Run()
				os.RemoveAll(tmpd)
				cn, cs := []string{"<goalign " + strings.Join(args, " ") + " failed>"}, []string{"A"}
				if runErr == nil {
					if out, pe := fasta.NewParser(bytes.NewReader(stdout.Bytes())).ParseUnalign(); pe == nil {
						cn, cs = alignContent(out)
					}
				}
				term := fmt.Sprintf("mk %s %s (%s) %s %s %s %s %s", coqZ(alpha), coqRows(inN, inS), opterm, coqBool(false),
					coqRows(cn, cs), groupsTerm(groups), coqZList([]int{}), coqZ(0))
				w.add(term, map[string]interface{}{"op": "cli:dedup", "alphabet": alpha, "names": inN, "seqs": inS, "nasgap": nag, "class": OutOk,
					"out_names": cn, "out_seqs": cs, "groups": groups, "args": args})
				stats["cli:dedup"]++
			}
		}
	}
	if g.only >= 0 {
		w.terms = w.terms[g.only : g.only+1]
		w.meta = w.meta[g.only : g.only+1]
	}
	if err := w.flush(g.out, "C13", g.per); err != nil {
		return err
	}
	writeStats(g.out, stats)
	return nil
}
