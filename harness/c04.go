package main

// C04: site extraction and coordinates.

import (
	"bytes"
	"fmt"
	"github.com/evolbioinfo/goalign/io/phylip"
	"math/rand"
	"os"
	"os/exec"
	"path/filepath"
	"strings"

	"github.com/evolbioinfo/goalign/align"
	"github.com/evolbioinfo/goalign/io/fasta"
	"github.com/evolbioinfo/goalign/io/partition"
)

func init() { register("c04", c04) }

func boundaryInt(r *rand.Rand, L int) int {
	c := []int{-1, 0, 1, L - 1, L, L + 1, L / 2}
	if r.Intn(3) == 0 {
		return r.Intn(L+4) - 2
	}
	return c[r.Intn(len(c))]
}

func randGappedByte(r *rand.Rand) byte {
	x := r.Intn(100)
	switch {
	case x < 62:
		return "ACGT"[r.Intn(4)]
	case x < 70:
		return "acgtNRY"[r.Intn(7)]
	case x < 95:
		return '-'
	default:
		return '.'
	}
}

func randNoPointByte(r *rand.Rand) byte {
	for {
		b := randGappedByte(r)
		if b != '.' {
			return b
		}
	}
}

func randAlign(r *rand.Rand, maxSeq, maxLen int, gen func(*rand.Rand) byte) ([]string, []string) {
	nseq := randLen(r, maxSeq)
	L := randLen(r, maxLen)
	names := distinctNames(r, nseq)
	seqs := make([]string, nseq)
	for i := range seqs {
		seqs[i] = randSeq(r, L, gen)
	}
	return names, seqs
}

func coqBRows(names, seqs []string) string { return coqRows(names, seqs) }

func c04(args []string) error {
	g, err := parseGenFlags("c04", args)
	if err != nil {
		return err
	}
	r := rand.New(rand.NewSource(g.seed))
	w := newCaseWriter("C04")
	stats := map[string]int{}

	type result struct {
		class   string
		outN    []string
		outS    []string
		ints    []int
		outsN   [][]string
		outsS   [][]string
		hasOuts bool
	}
	add := func(alpha int, names, seqs []string, opname, opterm string, res result, meta map[string]interface{}) {
		outs := []string{}
		for i := range res.outsN {
			outs = append(outs, coqRows(res.outsN[i], res.outsS[i]))
		}
		term := fmt.Sprintf("mk %s %s (%s) %s %s %s %s", coqZ(alpha), coqRows(names, seqs), opterm,
			coqBool(res.class != OutOk), coqRows(res.outN, res.outS), coqZList(res.ints), coqList(outs))
		meta["op"] = opname
		meta["opterm"] = opterm
		meta["alphabet"] = alpha
		meta["names"] = names
		meta["seqs"] = seqs
		meta["class"] = res.class
		meta["out_names"] = res.outN
		meta["out_seqs"] = res.outS
		meta["ints"] = res.ints
		w.add(term, meta)
		stats[opname+":"+res.class]++
	}

	one := func(names, seqs []string, alpha int, kind int) {
		a, e := mkAlign(alpha, names, seqs)
		if e != nil {
			return
		}
		L := a.Length()
		if L < 0 {
			L = 0
		}
		res := result{outN: []string{}, outS: []string{}, ints: []int{}}
		meta := map[string]interface{}{}
		switch kind {
		case 0: // SubAlign
			s, l := boundaryInt(r, L), boundaryInt(r, L)
			if r.Intn(2) == 0 && L > 0 {
				s = r.Intn(L + 1)
				l = r.Intn(L - s + 1)
			}
			var sub align.Alignment
			res.class, _ = guarded(5e9, func() error { var e error; sub, e = a.SubAlign(s, l); return e })
			if res.class == OutOk {
				res.outN, res.outS = alignContent(sub)
			}
			add(alpha, names, seqs, "SubAlign", fmt.Sprintf("OpSub %s %s", coqZ(s), coqZ(l)), res, meta)
		case 1: // SelectSites
			k := r.Intn(6)
			sites := make([]int, k)
			// a run of consecutive sites, shuffled or with a repeat: the list is NOT a window although its ends look like one
			if L >= 3 && r.Intn(4) == 0 {
				st := r.Intn(L - 2)
				n := 3 + r.Intn(min(4, L-st-2))
				run := make([]int, n)
				for i := range run {
					run[i] = st + i
				}
				switch r.Intn(3) {
				case 0: // inner sites swapped, ends in place
					if n >= 4 {
						run[1], run[2] = run[2], run[1]
					} else {
						run[0], run[1] = run[1], run[0]
					}
				case 1: // a repeat inside: first + len - 1 == last
					run[1] = run[0]
				default:
					r.Shuffle(n, func(a, b int) { run[a], run[b] = run[b], run[a] })
				}
				sites = run
			}
			for i := range sites {
				if len(sites) != k {
					break
				}
				if r.Intn(4) == 0 {
					sites[i] = boundaryInt(r, L)
				} else if L > 0 {
					sites[i] = r.Intn(L)
				}
			}
			var sub align.Alignment
			res.class, _ = guarded(5e9, func() error { var e error; sub, e = a.SelectSites(sites); return e })
			if res.class == OutOk {
				res.outN, res.outS = alignContent(sub)
			}
			add(alpha, names, seqs, "SelectSites", "OpSelect "+coqZList(sites), res, meta)
		case 2: // InverseCoordinates
			s, l := boundaryInt(r, L), boundaryInt(r, L)
			if r.Intn(2) == 0 && L > 0 {
				s = r.Intn(L + 1)
				l = r.Intn(L - s + 1)
			}
			res.class, _ = guarded(5e9, func() error {
				st, ln, e := a.InverseCoordinates(s, l)
				res.ints = append(append([]int{}, st...), ln...)
				return e
			})
			if res.class != OutOk {
				res.ints = []int{}
			}
			add(alpha, names, seqs, "InverseCoordinates", fmt.Sprintf("OpInvCoord %s %s", coqZ(s), coqZ(l)), res, meta)
		case 3: // InversePositions
			k := r.Intn(6)
			sites := make([]int, k)
			for i := range sites {
				if r.Intn(5) == 0 {
					sites[i] = boundaryInt(r, L)
				} else if L > 0 {
					sites[i] = r.Intn(L)
				}
			}
			res.class, _ = guarded(5e9, func() error {
				inv, e := a.InversePositions(sites)
				res.ints = append([]int{}, inv...)
				return e
			})
			if res.class != OutOk {
				res.ints = []int{}
			}
			add(alpha, names, seqs, "InversePositions", "OpInvPos "+coqZList(sites), res, meta)
		case 4: // TrimSequences
			n := boundaryInt(r, L)
			fs := r.Intn(2) == 0
			res.class, _ = guarded(5e9, func() error { return a.TrimSequences(n, fs) })
			res.outN, res.outS = alignContent(a)
			if res.class != OutOk {
				res.outN, res.outS = []string{}, []string{}
			}
			add(alpha, names, seqs, "TrimSequences", fmt.Sprintf("OpTrim %s %s", coqZ(n), coqBool(fs)), res, meta)
		case 5: // RefCoordinates
			name := "nosuch"
			ung := 0
			if len(names) > 0 && r.Intn(10) > 0 {
				k := r.Intn(len(names))
				name = names[k]
				ung = len(strings.ReplaceAll(seqs[k], "-", ""))
			}
			s, l := boundaryInt(r, ung), boundaryInt(r, ung)
			if r.Intn(2) == 0 && ung > 0 {
				s = r.Intn(ung)
				l = 1 + r.Intn(ung-s)
			}
			res.class, _ = guarded(5e9, func() error {
				st, ln, e := a.RefCoordinates(name, s, l)
				res.ints = []int{st, ln}
				return e
			})
			if len(res.ints) != 2 {
				res.ints = []int{0, 0}
			}
			add(alpha, names, seqs, "RefCoordinates", fmt.Sprintf("OpRefCoord %s %s %s", coqStr(name), coqZ(s), coqZ(l)), res, meta)
			// the same request through the command line: goalign subseq --ref-seq
			if bin := os.Getenv("VERIF_GOALIGN_BIN"); bin != "" && len(names) > 0 && r.Intn(3) == 0 {
				tmpd, e := os.MkdirTemp("", "c04cli")
				if e == nil {
					inf := filepath.Join(tmpd, "in.fa")
					var sb strings.Builder
					for k := range names {
						fmt.Fprintf(&sb, ">%s\n%s\n", names[k], seqs[k])
					}
					os.WriteFile(inf, []byte(sb.String()), 0644)
					cres := result{outN: []string{}, outS: []string{}, ints: []int{}}
					// half of the time the input holds the alignment twice (Phylip stream): every alignment of the file gets
					// the window the user asked for
					twice := r.Intn(2) == 0
					args := []string{"subseq", "-i", inf, fmt.Sprintf("--start=%d", s), fmt.Sprintf("--length=%d", l), "--ref-seq", name}
					if twice {
						if a2, e2 := mkAlign(alpha, names, seqs); e2 == nil {
							one := phylip.WriteAlignment(a2, false, false, false)
							os.WriteFile(inf, []byte(one+one), 0644)
							args = append(args, "-p")
						} else {
							twice = false
						}
					}
					cmd := exec.Command(bin, args...)
					var stdout bytes.Buffer
					cmd.Stdout = &stdout
					runErr := cmd.Run()
					cres.class = OutOk
					if runErr != nil {
						cres.class = OutErr
					} else if twice {
						ch := align.AlignChannel{Achan: make(chan align.Alignment, 10)}
						go phylip.NewParser(bytes.NewReader(stdout.Bytes()), false).ParseMultiple(&ch)
						var outs []align.Alignment
						for x := range ch.Achan {
							outs = append(outs, x)
						}
						if ch.Err != nil || len(outs) != 2 {
							cres.class = "BadOutput"
						} else {
							cres.outN, cres.outS = alignContent(outs[0])
							n2, s2 := alignContent(outs[1])
							if fmt.Sprint(n2) != fmt.Sprint(cres.outN) || fmt.Sprint(s2) != fmt.Sprint(cres.outS) {
								cres.outN, cres.outS = []string{"<the second alignment of the file got another window>"}, []string{""}
							}
						}
					} else if al, pe := fasta.NewParser(bytes.NewReader(stdout.Bytes())).Parse(); pe == nil {
						cres.outN, cres.outS = alignContent(al)
					} else {
						cres.class = "BadOutput"
					}
					os.RemoveAll(tmpd)
					add(alpha, names, seqs, "cli:subseq --ref-seq", fmt.Sprintf("OpSubseqRef %s %s %s", coqStr(name), coqZ(s), coqZ(l)), cres, map[string]interface{}{"cli": true})
				}
			}
			// goalign subseq --reverse: all but the window (the whole alignment as window leaves nothing: an error)
			if bin := os.Getenv("VERIF_GOALIGN_BIN"); bin != "" && len(names) > 0 && len(seqs[0]) > 0 && r.Intn(3) == 0 {
				tmpd, e := os.MkdirTemp("", "c04cli")
				if e == nil {
					L := len(seqs[0])
					rs, rl := r.Intn(L+1), 0
					rl = r.Intn(L - rs + 1)
					switch r.Intn(6) {
					case 0:
						rs, rl = 0, L
					case 1:
						rl = L - rs
					case 2:
						rs, rl = boundaryInt(r, L), boundaryInt(r, L)
					}
					inf := filepath.Join(tmpd, "in.fa")
					var sb strings.Builder
					for k := range names {
						fmt.Fprintf(&sb, ">%s\n%s\n", names[k], seqs[k])
					}
					os.WriteFile(inf, []byte(sb.String()), 0644)
					cres := result{outN: []string{}, outS: []string{}, ints: []int{}}
					cmd := exec.Command(bin, "subseq", "-i", inf, fmt.Sprintf("--start=%d", rs), fmt.Sprintf("--length=%d", rl), "--reverse")
					var stdout, stderr bytes.Buffer
					cmd.Stdout, cmd.Stderr = &stdout, &stderr
					runErr := cmd.Run()
					cres.class = OutOk
					if strings.Contains(stderr.String(), "panic:") || strings.Contains(stderr.String(), "goroutine ") {
						cres.outN, cres.outS = []string{"<the command panicked>"}, []string{""} // neither a result nor an error
					} else if runErr != nil {
						cres.class = OutErr
					} else if al, pe := fasta.NewParser(bytes.NewReader(stdout.Bytes())).Parse(); pe == nil {
						cres.outN, cres.outS = alignContent(al)
					} else {
						cres.class = "BadOutput"
					}
					os.RemoveAll(tmpd)
					add(alpha, names, seqs, "cli:subseq --reverse", fmt.Sprintf("OpSubseqRev %s %s", coqZ(rs), coqZ(rl)), cres, map[string]interface{}{"cli": true})
				}
			}
		case 6: // RefSites
			name := "nosuch"
			ung := 0
			if len(names) > 0 && r.Intn(10) > 0 {
				k := r.Intn(len(names))
				name = names[k]
				ung = len(strings.ReplaceAll(seqs[k], "-", ""))
			}
			k := r.Intn(5)
			sites := make([]int, k)
			for i := range sites {
				if r.Intn(4) == 0 {
					sites[i] = []int{-1, 0, ung - 1, ung, ung + 1, L - 1, L}[r.Intn(7)]
				} else if ung > 0 {
					sites[i] = r.Intn(ung)
				}
			}
			res.class, _ = guarded(5e9, func() error {
				rs, e := a.RefSites(name, sites)
				res.ints = append([]int{}, rs...)
				return e
			})
			if res.class != OutOk {
				res.ints = []int{}
			}
			add(alpha, names, seqs, "RefSites", fmt.Sprintf("OpRefSites %s %s", coqStr(name), coqZList(sites)), res, meta)
		case 7: // Concat
			cn, cs := randAlign(r, 5, 8, randGappedByte)
			// share some names with a
			for i := range cn {
				if len(names) > 0 && r.Intn(2) == 0 {
					cand := names[r.Intn(len(names))]
					dup := false
					for _, x := range cn {
						if x == cand {
							dup = true
						}
					}
					if !dup {
						cn[i] = cand
					}
				}
			}
			calpha := alpha
			if r.Intn(12) == 0 {
				calpha = align.AMINOACIDS
			}
			c, e := mkAlign(calpha, cn, cs)
			if e != nil {
				return
			}
			cn, cs = alignContent(c)
			res.class, _ = guarded(5e9, func() error { return a.Concat(c) })
			res.outN, res.outS = alignContent(a)
			meta["c_names"] = cn
			meta["c_seqs"] = cs
			add(alpha, names, seqs, "Concat", fmt.Sprintf("OpConcat %s %s", coqZ(calpha), coqRows(cn, cs)), res, meta)
		case 8: // prefix + suffix re-assembly
			k := boundaryInt(r, L)
			if r.Intn(2) == 0 && L > 0 {
				k = r.Intn(L + 1)
			}
			res.class, _ = guarded(5e9, func() error {
				p, e := a.SubAlign(0, k)
				if e != nil {
					return e
				}
				q, e := a.SubAlign(k, a.Length()-k)
				if e != nil {
					return e
				}
				if e = p.Concat(q); e != nil {
					return e
				}
				res.outN, res.outS = alignContent(p)
				return nil
			})
			add(alpha, names, seqs, "SubAlign+Concat", fmt.Sprintf("OpPrefixSuffix %s", coqZ(k)), res, meta)
		case 9: // Split
			if a.Length() < 0 {
				return
			}
			ps := align.NewPartitionSet(a.Length())
			type rg struct {
				n       string
				s, e, m int
			}
			ranges := []rg{}
			mode := r.Intn(4)
			switch {
			case mode == 0 && L >= 3: // codon partitions
				ranges = []rg{{"p1", 0, L - 1, 3}, {"p2", 1, L - 1, 3}, {"p3", 2, L - 1, 3}}
				if r.Intn(3) == 0 {
					ranges[2].n = "p1"
				}
			case mode == 1 && L >= 2: // two blocks
				k := 1 + r.Intn(L-1)
				ranges = []rg{{"A", 0, k - 1, 1}, {"B", k, L - 1, 1}}
				if r.Intn(3) == 0 && k >= 2 {
					ranges = []rg{{"A", 0, k - 2, 1}, {"B", k, L - 1, 1}, {"A", k - 1, k - 1, 1}}
				}
			case mode == 2 && L >= 4: // an interleaved head followed by a plain tail, under one name
				k := 2 + r.Intn(L-2)
				mm := 2 + r.Intn(2)
				ranges = []rg{{"A", 0, k - 1, mm}, {"A", k, L - 1, 1}}
				for o := 1; o < mm; o++ {
					ranges = append(ranges, rg{[]string{"B", "C"}[o-1], o, k - 1, mm})
				}
			default:
				n := 1 + r.Intn(4)
				for i := 0; i < n; i++ {
					s := boundaryInt(r, L)
					e := boundaryInt(r, L)
					if r.Intn(3) > 0 && L > 0 {
						s = r.Intn(L)
						e = s + r.Intn(L-s)
					}
					m := 1 + r.Intn(3)
					if r.Intn(15) == 0 {
						m = 0
					}
					ranges = append(ranges, rg{[]string{"A", "B", "C"}[r.Intn(3)], s, e, m})
				}
			}
			terms := []string{}
			// half of the time the partition set is read from a partition file written from the same ranges
			// (consecutive ranges of one name share a line; "/1" and single-site ranges in short form)
			viaFile := r.Intn(2) == 0
			for _, x := range ranges {
				if x.s < -1 || x.e < -1 {
					viaFile = false
				}
			}
			ptext := ""
			if viaFile {
				var sb strings.Builder
				for i, x := range ranges {
					if i > 0 && ranges[i-1].n == x.n && r.Intn(4) > 0 {
						sb.WriteString(",")
					} else {
						if i > 0 {
							sb.WriteString("\n")
						}
						sb.WriteString("m," + x.n + "=")
					}
					if x.s == x.e && r.Intn(2) == 0 {
						fmt.Fprintf(&sb, "%d", x.s+1)
					} else {
						fmt.Fprintf(&sb, "%d-%d", x.s+1, x.e+1)
					}
					if x.m != 1 || r.Intn(4) == 0 {
						fmt.Fprintf(&sb, "/%d", x.m)
					}
				}
				if len(ranges) > 0 && r.Intn(2) == 0 {
					sb.WriteString("\n")
				}
				ptext = sb.String()
				meta["partition_file"] = ptext
			}
			res.class, _ = guarded(5e9, func() error {
				if viaFile && len(ranges) > 0 {
					var e error
					if ps, e = partition.NewParser(strings.NewReader(ptext)).Parse(a.Length()); e != nil {
						return e
					}
				} else {
					for _, x := range ranges {
						if e := ps.AddRange(x.n, "m", x.s, x.e, x.m); e != nil {
							return e
						}
					}
				}
				als, e := a.Split(ps)
				if e != nil {
					return e
				}
				for _, al := range als {
					n, s := alignContent(al)
					res.outsN = append(res.outsN, n)
					res.outsS = append(res.outsS, s)
				}
				return nil
			})
			if res.class != OutOk {
				res.outsN, res.outsS = nil, nil
			}
			for _, x := range ranges {
				terms = append(terms, fmt.Sprintf("(%s, (%s, %s, %s))", coqStr(x.n), coqZ(x.s), coqZ(x.e), coqZ(x.m)))
			}
			meta["ranges"] = fmt.Sprint(ranges)
			add(alpha, names, seqs, "Split", "OpSplit "+coqList(terms), res, meta)
		case 10, 11: // Transpose, twice
			twice := kind == 11
			res.class, _ = guarded(5e9, func() error {
				t, e := a.Transpose()
				if e != nil {
					return e
				}
				if twice {
					if t, e = t.Transpose(); e != nil {
						return e
					}
				}
				res.outN, res.outS = alignContent(t)
				return nil
			})
			if twice {
				add(alpha, names, seqs, "Transpose.Transpose", "OpTransposeTwice", res, meta)
			} else {
				add(alpha, names, seqs, "Transpose", "OpTranspose", res, meta)
			}
		case 12, 13:
			rep := kind == 13
			res.class, _ = guarded(5e9, func() error {
				a.DiffWithFirst()
				if rep {
					a.ReplaceMatchChars()
				}
				return nil
			})
			res.outN, res.outS = alignContent(a)
			if rep {
				add(alpha, names, seqs, "DiffWithFirst.ReplaceMatchChars", "OpDiffReplace", res, meta)
			} else {
				add(alpha, names, seqs, "DiffWithFirst", "OpDiff", res, meta)
			}
		}
	}

	// exhaustive part: all windows / boundary site lists on two tiny alignments
	tinyN := []string{"a", "b"}
	for _, tiny := range [][]string{{"A-C", "-GT"}, {"AC-T", "A-GT"}} {
		L := len(tiny[0])
		for s := -1; s <= L+1; s++ {
			for l := -1; l <= L+1; l++ {
				a, _ := mkAlign(align.NUCLEOTIDS, tinyN, tiny)
				res := result{outN: []string{}, outS: []string{}, ints: []int{}}
				var sub align.Alignment
				res.class, _ = guarded(5e9, func() error { var e error; sub, e = a.SubAlign(s, l); return e })
				if res.class == OutOk {
					res.outN, res.outS = alignContent(sub)
				}
				add(align.NUCLEOTIDS, tinyN, tiny, "SubAlign", fmt.Sprintf("OpSub %s %s", coqZ(s), coqZ(l)), res, map[string]interface{}{"exhaustive": true})
			}
			a, _ := mkAlign(align.NUCLEOTIDS, tinyN, tiny)
			res := result{outN: []string{}, outS: []string{}, ints: []int{}}
			var sub align.Alignment
			sites := []int{0, s}
			res.class, _ = guarded(5e9, func() error { var e error; sub, e = a.SelectSites(sites); return e })
			if res.class == OutOk {
				res.outN, res.outS = alignContent(sub)
			}
			add(align.NUCLEOTIDS, tinyN, tiny, "SelectSites", "OpSelect "+coqZList(sites), res, map[string]interface{}{"exhaustive": true})
			res2 := result{outN: []string{}, outS: []string{}, ints: []int{}}
			res2.class, _ = guarded(5e9, func() error {
				inv, e := a.InversePositions(sites)
				res2.ints = append([]int{}, inv...)
				return e
			})
			if res2.class != OutOk {
				res2.ints = []int{}
			}
			add(align.NUCLEOTIDS, tinyN, tiny, "InversePositions", "OpInvPos "+coqZList(sites), res2, map[string]interface{}{"exhaustive": true})
		}
	}

	for i := 0; i < g.n; i++ {
		kind := r.Intn(14)
		gen := randGappedByte
		if kind >= 12 && r.Intn(3) > 0 {
			gen = randNoPointByte
		}
		names, seqs := randAlign(r, 5, 24, gen)
		alpha := align.NUCLEOTIDS
		one(names, seqs, alpha, kind)
	}
	if g.only >= 0 {
		w.terms = w.terms[g.only : g.only+1]
		w.meta = w.meta[g.only : g.only+1]
	}
	if err := w.flush(g.out, "C04", g.per); err != nil {
		return err
	}
	writeStats(g.out, stats)
	return nil
}
