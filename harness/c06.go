package main

// C06: strand, case and un-align transforms.

import (
	"bytes"
	"fmt"
	"math/rand"
	"os"
	"os/exec"
	"path/filepath"
	"strings"

	"github.com/evolbioinfo/goalign/align"
	"github.com/evolbioinfo/goalign/io/fasta"
)

func init() { register("c06", c06) }

func c06(args []string) error {
	g, err := parseGenFlags("c06", args)
	if err != nil {
		return err
	}
	r := rand.New(rand.NewSource(g.seed))
	w := newCaseWriter("C06")
	stats := map[string]int{}

	emit := func(alpha int, names, seqs []string, opname string, opterm string, run func(sb align.SeqBag) (align.SeqBag, error)) {
		sb := mkSeqBag(alpha, names, seqs)
		inNames, inSeqs := alignContent(sb) // names as stored (duplicates renamed)
		var res align.SeqBag
		class, msg := guarded(5e9, func() error {
			var e error
			res, e = run(sb)
			return e
		})
		if res == nil {
			res = sb
		}
		outNames, outSeqs := alignContent(res)
		if class == OutPanic || class == OutDiverge {
			// recorded as an error with impossible output so that both oracles fail
			outNames, outSeqs = []string{"<" + class + ">"}, []string{msg}
		}
		term := fmt.Sprintf("mk %s %s %s %s %s", coqZ(alpha), coqRows(inNames, inSeqs), opterm, coqBool(class != OutOk), coqRows(outNames, outSeqs))
		w.add(term, map[string]interface{}{"op": opname, "alphabet": alpha, "names": inNames, "seqs": inSeqs,
			"opterm": opterm, "class": class, "msg": msg, "out_names": outNames, "out_seqs": outSeqs})
		stats[opname]++
	}

	// (1) all 256 bytes through align.Complement, one byte at a time
	for b := 0; b < 256; b++ {
		s := string([]byte{byte(b)})
		emit(align.NUCLEOTIDS, []string{"x"}, []string{s}, "Complement", "OpCompl", func(sb align.SeqBag) (align.SeqBag, error) {
			seq, _ := sb.GetSequenceCharById(0)
			return sb, align.Complement(seq)
		})
	}

	// (2) random alignments / bags
	for i := 0; i < g.n; i++ {
		nseq := randLen(r, 5)
		L := randLen(r, 30)
		names := distinctNames(r, nseq)
		seqs := make([]string, nseq)
		aligned := r.Intn(3) > 0
		for k := range seqs {
			l := L
			if !aligned {
				l = randLen(r, 30)
			}
			gen := randDNAByte
			if r.Intn(25) == 0 { // occasionally outside the DNA alphabet
				gen = func(r *rand.Rand) byte { const odd = "ACGTUuXZ?!ab \xe9"; return odd[r.Intn(len(odd))] }
			}
			seqs[k] = randSeq(r, l, gen)
		}
		alpha := align.NUCLEOTIDS
		if r.Intn(15) == 0 {
			alpha = []int{align.AMINOACIDS, align.UNKNOWN}[r.Intn(2)]
		}
		switch r.Intn(7) {
		case 0:
			emit(alpha, names, seqs, "ReverseComplement", "OpRC", func(sb align.SeqBag) (align.SeqBag, error) {
				return sb, sb.ReverseComplement()
			})
		case 1:
			emit(alpha, names, seqs, "ReverseComplementTwice", "OpRCTwice", func(sb align.SeqBag) (align.SeqBag, error) {
				if e := sb.ReverseComplement(); e != nil {
					return sb, e
				}
				return sb, sb.ReverseComplement()
			})
		case 2, 3:
			k := r.Intn(4)
			req := []string{}
			for j := 0; j < k; j++ {
				x := r.Intn(10)
				switch {
				case x < 6 && nseq > 0:
					req = append(req, names[r.Intn(nseq)])
				case x < 8:
					req = append(req, "unknown_name")
				default:
					req = append(req, randName(r))
				}
			}
			emit(alpha, names, seqs, "ReverseComplementSequences", "(OpRCNames "+coqStrList(req)+")", func(sb align.SeqBag) (align.SeqBag, error) {
				return sb, sb.ReverseComplementSequences(req...)
			})
			// the same request through the command line: goalign revcomp [--unaligned] name...
			if bin := os.Getenv("VERIF_GOALIGN_BIN"); bin != "" && len(req) > 0 && alpha == align.NUCLEOTIDS && nseq > 0 && r.Intn(2) == 0 {
				probe := mkSeqBag(alpha, names, seqs)
				pn, ps := alignContent(probe)
				ok := true
				sameLen := true
				for k := range ps {
					if len(ps[k]) == 0 || strings.ContainsAny(ps[k], " \t>\r\n\x00") || strings.ContainsAny(pn[k], " \t>\r\n\x00") || len(pn[k]) == 0 {
						ok = false
					}
					for _, c := range []byte(ps[k]) {
						if c >= 0x80 {
							ok = false
						}
					}
					if len(ps[k]) != len(ps[0]) {
						sameLen = false
					}
				}
				probe.AutoAlphabet()
				if ok && probe.Alphabet() == align.NUCLEOTIDS {
					for _, q := range req {
						if strings.HasPrefix(q, "-") || q == "" {
							ok = false
						}
					}
				}
				if ok && probe.Alphabet() == align.NUCLEOTIDS {
					if tmpd, e := os.MkdirTemp("", "c06cli"); e == nil {
						inf := filepath.Join(tmpd, "in.fa")
						var b strings.Builder
						for k := range pn {
							fmt.Fprintf(&b, ">%s\n%s\n", pn[k], ps[k])
						}
						os.WriteFile(inf, []byte(b.String()), 0644)
						unal := !sameLen || r.Intn(2) == 0
						args := []string{"revcomp", "-i", inf}
						if unal {
							args = append(args, "--unaligned")
						}
						args = append(args, req...)
						cmd := exec.Command(bin, args...)
						var stdout bytes.Buffer
						cmd.Stdout = &stdout
						runErr := cmd.Run()
						os.RemoveAll(tmpd)
						// when the library call fails the command fails too (and prints nothing to compare: the partly
						// complemented rows of the library are not observable through the command)
						libErr := mkSeqBag(alpha, pn, ps).ReverseComplementSequences(req...)
						if libErr != nil && runErr != nil {
							continue
						}
						emit(alpha, pn, ps, "cli:revcomp", "(OpRCNames "+coqStrList(req)+")", func(sb align.SeqBag) (align.SeqBag, error) {
							if runErr != nil || libErr != nil {
								return mkSeqBag(alpha, []string{"<goalign " + strings.Join(args, " ") + ": the command and the library disagree on failing>"}, []string{"A"}), nil
							}
							out, pe := fasta.NewParser(bytes.NewReader(stdout.Bytes())).ParseUnalign()
							if pe != nil {
								return mkSeqBag(alpha, []string{"<unreadable output of goalign " + strings.Join(args, " ") + ">"}, []string{"A"}), nil
							}
							return out, nil
						})
					}
				}
			}
		case 4:
			emit(alpha, names, seqs, "ToUpper", "OpUpper", func(sb align.SeqBag) (align.SeqBag, error) { sb.ToUpper(); return sb, nil })
		case 5:
			emit(alpha, names, seqs, "ToLower", "OpLower", func(sb align.SeqBag) (align.SeqBag, error) { sb.ToLower(); return sb, nil })
		case 6:
			emit(alpha, names, seqs, "Unalign", "OpUnalign", func(sb align.SeqBag) (align.SeqBag, error) {
				u := sb.Unalign()
				// the un-aligned set is a copy: editing it leaves the source alone, and the other way round
				snap := func(x align.SeqBag) string { n, q := alignContent(x); return fmt.Sprint(n, q) }
				shared := mkSeqBag(alpha, []string{"<Unalign shares storage with its source>"}, []string{"A"})
				src0 := snap(sb)
				v := sb.Unalign()
				v.ToLower()
				v.ToUpper()
				if r.Intn(2) == 0 {
					v.ReverseComplement()
				}
				if snap(sb) != src0 {
					return shared, nil
				}
				u0 := snap(u)
				sb.ToLower()
				if snap(u) != u0 {
					return shared, nil
				}
				sb.ToUpper()
				if snap(u) != u0 {
					return shared, nil
				}
				return u, nil
			})
		}
	}
	if g.only >= 0 {
		w.terms = w.terms[g.only : g.only+1]
		w.meta = w.meta[g.only : g.only+1]
	}
	if err := w.flush(g.out, "C06", g.per); err != nil {
		return err
	}
	writeStats(g.out, stats)
	return nil
}
