package main

// C20: random site weights and rate categories are correctly normalised.

import (
	"bytes"
	"fmt"
	"math"
	"math/big"
	"math/rand"
	"os"
	"strings"
	"time"

	"github.com/evolbioinfo/goalign/align"
	"github.com/evolbioinfo/goalign/distance/dna"
	"github.com/evolbioinfo/goalign/models"
	"github.com/evolbioinfo/goalign/stats"
)

func init() { register("c20", c20) }

// replay of stats.gamma on an explicit stream of uniform draws; rounds records the draws consumed
type gammaRound struct {
	u1, u2   float64
	accepted bool
	trivial  bool // rejected by the range test on u1 (or u <= 1e-7 for alpha == 1)
	left     bool // accepted by the first disjunct
	margin   float64
	hi       bool // alpha < 1: p > 1 branch
}

func replayGamma(alpha, beta float64, next func() float64) (float64, []gammaRound) {
	magic := 4 * math.Exp(-0.5) / math.Sqrt(2.0)
	var rounds []gammaRound
	if alpha > 1.0 {
		ainv := math.Sqrt(2.0*alpha - 1.0)
		bbb := alpha - math.Log(4.0)
		ccc := alpha + ainv
		for {
			u1 := next()
			if !(1e-7 < u1 && u1 < .9999999) {
				rounds = append(rounds, gammaRound{u1: u1, trivial: true})
				continue
			}
			u2 := 1.0 - next()
			v := math.Log(u1/(1.0-u1)) / ainv
			x := alpha * math.Exp(v)
			z := u1 * u1 * u2
			r := bbb + ccc*v - x
			a := r + magic - 4.5*z
			b := r - math.Log(z)
			if a >= 0.0 || r >= math.Log(z) {
				rounds = append(rounds, gammaRound{u1: u1, u2: u2, accepted: true, left: a >= 0, margin: math.Max(a, b)})
				return x * beta, rounds
			}
			rounds = append(rounds, gammaRound{u1: u1, u2: u2, margin: math.Min(-a, -b)})
		}
	} else if alpha == 1.0 {
		u := next()
		for u <= 1e-7 {
			rounds = append(rounds, gammaRound{u1: u, trivial: true})
			u = next()
		}
		rounds = append(rounds, gammaRound{u1: u, accepted: true, margin: 1})
		return -math.Log(u) * beta, rounds
	}
	var x float64
	for {
		u := next()
		b := (math.E + alpha) / math.E
		p := b * u
		if p <= 1.0 {
			x = math.Pow(p, 1.0/alpha)
		} else {
			x = -math.Log((b - p) / alpha)
		}
		u1 := next()
		if p > 1.0 {
			if u1 <= math.Pow(x, alpha-1.0) {
				rounds = append(rounds, gammaRound{u1: u, u2: u1, accepted: true, hi: true, margin: math.Min(math.Pow(x, alpha-1.0)-u1, p-1)})
				break
			}
		} else if u1 <= math.Exp(-x) {
			rounds = append(rounds, gammaRound{u1: u, u2: u1, accepted: true, margin: math.Min(math.Exp(-x)-u1, 1-p)})
			break
		}
		rounds = append(rounds, gammaRound{u1: u, u2: u1})
	}
	return x * beta, rounds
}

func ratLit(r *big.Rat) string {
	return fmt.Sprintf("(IZR (%s) / IZR %s)%%R", r.Num().String(), r.Denom().String())
}

// Gamma(p) for integer and half-integer p as a real term
func gammaTerm(twoP int) string {
	if twoP%2 == 0 {
		n := twoP/2 - 1
		f := big.NewInt(1)
		for k := 2; k <= n; k++ {
			f.Mul(f, big.NewInt(int64(k)))
		}
		return fmt.Sprintf("(IZR %s)", f.String())
	}
	// Gamma(n + 1/2) = (2n)! sqrt(pi) / (4^n n!)
	n := (twoP - 1) / 2
	num, den := big.NewInt(1), big.NewInt(1)
	for k := 2; k <= 2*n; k++ {
		num.Mul(num, big.NewInt(int64(k)))
	}
	for k := 1; k <= n; k++ {
		den.Mul(den, big.NewInt(int64(4*k)))
	}
	return fmt.Sprintf("(IZR %s * sqrt PI / IZR %s)", num.String(), den.String())
}

func c20(args []string) error {
	g, err := parseGenFlags("c20", args)
	if err != nil {
		return err
	}
	r := rand.New(rand.NewSource(g.seed))
	w := newCaseWriter("C20")
	stats_ := map[string]int{}
	hungTotal := 0 // IncompleteGamma calls that did not return
	var certs bytes.Buffer
	ncert, certFiles := 0, 0
	certHeader := "From Coq Require Import Reals List.\nFrom Interval Require Import Tactic.\nImport ListNotations.\nFrom GA.Model Require Import Weights.\nFrom GA.Corr Require Import C20Cert.\nLocal Open Scope R_scope.\n"
	certMeta := []map[string]interface{}{}
	flush := func() {
		if certs.Len() > 0 {
			os.WriteFile(fmt.Sprintf("%s_cert_%d.v", g.out, certFiles), append([]byte(certHeader), certs.Bytes()...), 0644)
			certFiles++
			certs.Reset()
		}
	}
	maxcert := 60
	if g.tier == "thorough" {
		maxcert = 1500
	}
	addCert := func(stmt string, meta map[string]interface{}) {
		if ncert >= maxcert {
			return
		}
		fmt.Fprintf(&certs, "(* CERT %d *)\nLemma cert_%d : %s.\nProof. cert_weights. Qed.\n", ncert, ncert, stmt)
		meta["cert"] = ncert
		meta["case_idx"] = w.n() - 1
		certMeta = append(certMeta, meta)
		ncert++
		if ncert%6 == 0 {
			flush()
		}
	}
	flList := func(l []float64) string {
		it := make([]string, len(l))
		for i, x := range l {
			it[i] = flTerm(x)
		}
		return coqList(it)
	}
	qList := func(l []dyadic) string {
		it := make([]string, len(l))
		for i, x := range l {
			it[i] = x.coq()
		}
		return coqList(it)
	}
	shapes := []dyadic{{1, 64}, {1, 16}, {1, 8}, {1, 4}, {1, 2}, {3, 4}, {15, 16}, {1, 1}, {17, 16}, {5, 4}, {3, 2}, {2, 1}, {5, 2}, {4, 1}, {10, 1}, {33, 1}, {100, 1}, {3, 256}}
	same := func(a, b []float64) bool {
		if len(a) != len(b) {
			return false
		}
		for i := range a {
			if math.Float64bits(a[i]) != math.Float64bits(b[i]) {
				return false
			}
		}
		return true
	}
	// stream of the global source after rand.Seed(s)
	stream := func(s int64) func() float64 {
		rr := rand.New(rand.NewSource(s))
		return rr.Float64
	}
	mkAl := func(n int) align.Alignment {
		al := align.NewAlign(align.NUCLEOTIDS)
		al.AddSequence("a", strings.Repeat("A", n), "")
		al.AddSequence("b", strings.Repeat("C", n), "")
		return al
	}
	certRounds := func(alpha, beta dyadic, rounds []gammaRound, val float64, what string) {
		a, b := fmt.Sprintf("(%d / %d)", alpha.num, alpha.den), fmt.Sprintf("(%d / %d)", beta.num, beta.den)
		for _, rd := range rounds {
			if rd.trivial || rd.margin < 1e-6 {
				continue
			}
			switch {
			case alpha.f() > 1 && rd.accepted:
				addCert(fmt.Sprintf("cert_cheng %s %s %s %s %s (1/1000000000)", a, b, realLit(rd.u1), realLit(rd.u2), realLit(val)),
					map[string]interface{}{"what": what + ":cheng-accept", "alpha": alpha.f(), "go_value": val})
			case alpha.f() > 1:
				addCert(fmt.Sprintf("cert_cheng_reject %s %s %s", a, realLit(rd.u1), realLit(rd.u2)),
					map[string]interface{}{"what": what + ":cheng-reject", "alpha": alpha.f()})
			case alpha.f() == 1 && rd.accepted:
				addCert(fmt.Sprintf("cert_expo %s %s %s (1/1000000000)", b, realLit(rd.u1), realLit(val)),
					map[string]interface{}{"what": what + ":exponential", "go_value": val})
			case rd.accepted && rd.hi:
				addCert(fmt.Sprintf("cert_small_hi %s %s %s %s %s (1/1000000000)", a, b, realLit(rd.u1), realLit(rd.u2), realLit(val)),
					map[string]interface{}{"what": what + ":small-hi", "alpha": alpha.f(), "go_value": val})
			case rd.accepted && val > 1e-300:
				addCert(fmt.Sprintf("cert_small_lo %s %s %s %s %s (1/1000000000)", a, b, realLit(rd.u1), realLit(rd.u2), realLit(val)),
					map[string]interface{}{"what": what + ":small-lo", "alpha": alpha.f(), "go_value": val})
			}
		}
	}

	for i := 0; i < g.n; i++ {
		kind := r.Intn(7)
		seed := r.Int63n(1 << 40)
		switch kind {
		case 0, 1: // BuildWeightsGamma / BuildWeightsDirichlet
			n := 3 + r.Intn(40)
			if r.Intn(10) == 0 {
				n = []int{3, 4, 100, 257, 1000}[r.Intn(5)]
			}
			al := mkAl(n)
			rand.Seed(seed)
			var out, rep []float64
			next := stream(seed)
			rep = make([]float64, n)
			total := 0.0
			if kind == 0 {
				out = dna.BuildWeightsGamma(al)
				nf := float64(n)
				p := float64(1.0 / nf)
				alpha, beta := nf*p/(1-p), 1-p
				for k := range rep {
					rep[k], _ = replayGamma(alpha, beta, next)
					total += rep[k]
				}
				for k := range rep {
					rep[k] = rep[k] * nf / total
				}
			} else {
				out = dna.BuildWeightsDirichlet(al)
				for k := range rep {
					rep[k], _ = replayGamma(1, 1, next)
					total += rep[k]
				}
				for k := range rep {
					rep[k] = float64(n) * rep[k] / total
				}
			}
			w.add(fmt.Sprintf("mk %d %d (1#1)%%Q [] false %v %s []", kind, n, same(out, rep), flList(out)),
				map[string]interface{}{"op": []string{"BuildWeightsGamma", "BuildWeightsDirichlet"}[kind], "n": n, "rseed": seed})
			stats_[[]string{"BuildWeightsGamma", "BuildWeightsDirichlet"}[kind]]++
		case 2: // Dirichlet(factor, alphas) and the raw sampler
			k := 3 + r.Intn(6)
			if r.Intn(8) == 0 {
				k = 1 + r.Intn(2)
			}
			alphas := make([]dyadic, k)
			af := make([]float64, k)
			mode := r.Intn(5)
			for j := range alphas {
				switch mode {
				case 4:
					// tiny shapes only: a variate underflows to exactly 0 with probability exp(-709 a) (6 % at 1/256)
					alphas[j] = []dyadic{{1, 256}, {1, 128}, {3, 256}, {1, 256}}[r.Intn(4)]
				case 0:
					alphas[j] = shapes[r.Intn(len(shapes))]
				case 1:
					alphas[j] = dyadic{1, 1}
				case 2:
					alphas[j] = dyadic{1 + r.Intn(255), 256} // all below 1
				default:
					alphas[j] = dyadic{257 + r.Intn(2000), 256}
				}
				af[j] = alphas[j].f()
			}
			invalid := r.Intn(4) == 0
			if invalid {
				alphas[r.Intn(k)] = []dyadic{{0, 1}, {0, 1}, {-1, 2}, {-5, 1}}[r.Intn(4)]
				for j := range alphas {
					af[j] = alphas[j].f()
				}
			}
			factor := []dyadic{{1, 1}, {10, 1}, {1, 2}, {k, 1}, {1000, 1}}[r.Intn(5)]
			rand.Seed(seed)
			out, e := stats.Dirichlet(factor.f(), af...)
			rep := make([]float64, k)
			next := stream(seed)
			ok := true
			if e == nil {
				total := 0.0
				var firstRounds []gammaRound
				var firstVal float64
				for j := range rep {
					var rd []gammaRound
					rep[j], rd = replayGamma(af[j], 1, next)
					if j == 0 {
						firstRounds, firstVal = rd, rep[j]
					}
					total += rep[j]
				}
				for j := range rep {
					rep[j] = factor.f() * rep[j] / total
				}
				ok = same(out, rep)
				w.add(fmt.Sprintf("mk 2 %d %s %s false %v %s []", k, factor.coq(), qList(alphas), ok, flList(out)),
					map[string]interface{}{"op": "Dirichlet", "alphas": fmt.Sprint(alphas), "factor": factor.f(), "rseed": seed})
				certRounds(alphas[0], dyadic{1, 1}, firstRounds, firstVal, "Dirichlet")
			} else {
				w.add(fmt.Sprintf("mk 2 %d %s %s true true [] []", k, factor.coq(), qList(alphas)),
					map[string]interface{}{"op": "Dirichlet:error", "alphas": fmt.Sprint(alphas), "factor": factor.f(), "rseed": seed, "msg": e.Error()})
			}
			stats_["Dirichlet"]++
			if invalid {
				stats_["Dirichlet:invalid"]++
			}
		case 3: // Dirichlet1
			n := 1 + r.Intn(40)
			factor := []dyadic{{1, 1}, {10, 1}, {1, 2}, {n, 1}}[r.Intn(4)]
			rand.Seed(seed)
			out, e := stats.Dirichlet1(factor.f(), n)
			w.add(fmt.Sprintf("mk 3 %d %s [] %v true %s []", n, factor.coq(), e != nil, flList(out)),
				map[string]interface{}{"op": "Dirichlet1", "n": n, "factor": factor.f(), "rseed": seed})
			stats_["Dirichlet1"]++
		case 4: // stats.Gamma raw draws with certificates, judged as a Dirichlet-free positivity case
			alpha := shapes[r.Intn(len(shapes))]
			beta := []dyadic{{1, 1}, {1, 2}, {3, 1}, {7, 8}}[r.Intn(4)]
			rand.Seed(seed)
			v := stats.Gamma(alpha.f(), beta.f())
			rep, rounds := replayGamma(alpha.f(), beta.f(), stream(seed))
			// judged as a 3-value weight vector is not meaningful: use kind 2 shape with a single output
			w.add(fmt.Sprintf("mk 6 1 (1#1)%%Q %s false %v %s []", qList([]dyadic{alpha, beta}), same([]float64{v}, []float64{rep}), flList([]float64{v})),
				map[string]interface{}{"op": "Gamma", "alpha": alpha.f(), "beta": beta.f(), "rseed": seed})
			certRounds(alpha, beta, rounds, v, "Gamma")
			stats_["Gamma"]++
		case 5: // DiscreteGamma
			alpha := shapes[r.Intn(len(shapes))]
			if r.Intn(2) == 0 {
				alpha = dyadic{1 + r.Intn(6400), 64}
			}
			ncat := 2 + r.Intn(31)
			out := models.DiscreteGamma(alpha.f(), ncat)
			w.add(fmt.Sprintf("mk 4 %d (1#1)%%Q %s false true %s []", ncat, qList([]dyadic{alpha}), flList(out)),
				map[string]interface{}{"op": "DiscreteGamma", "alpha": alpha.f(), "ncat": ncat})
			stats_["DiscreteGamma"]++
		default: // IncompleteGamma on an ascending grid
			twoP := 1 + r.Intn(16)
			alpha := dyadic{twoP, 2}
			exact := true
			if r.Intn(2) == 0 {
				alpha = shapes[r.Intn(len(shapes))]
				if r.Intn(2) == 0 {
					alpha = dyadic{1 + r.Intn(6400), 64}
				}
				exact = false
			}
			lg, _ := math.Lgamma(alpha.f())
			npts := 30
			xs := make([]dyadic, npts)
			out := make([]float64, npts)
			step := 1 + r.Intn(int(3*alpha.f()*16+64)/npts+1)
			cur := 0
			hung := 0
			tiny := r.Intn(3) == 0 // a geometric lower tail first: the prefactor underflows there for large shapes
			for k := range xs {
				if tiny && k < 12 {
					xs[k] = dyadic{1, 1 << uint(50-4*k)} // 2^-50 .. 2^-6
				} else {
					if cur == 0 && tiny {
						cur = 1
					}
					xs[k] = dyadic{cur, 16}
					cur += 1 + r.Intn(2*step)
				}
				// the series / continued fraction terminate: a call that does not return within 5 s is recorded as -1,
				// a value outside [0,1] that both oracles reject (the spinning goroutine is abandoned)
				xk := xs[k].f()
				if hung > 1 || hungTotal > 5 { // enough evidence: no more calls that may spin
					out[k] = -1
					continue
				}
				done := make(chan float64, 1)
				go func() { done <- models.IncompleteGamma(xk, alpha.f(), lg) }()
				select {
				case v := <-done:
					out[k] = v
				case <-time.After(3 * time.Second):
					out[k] = -1
					hung++
					hungTotal++
				}
			}
			w.add(fmt.Sprintf("mk 5 %d (1#1)%%Q %s false true %s %s", npts, qList([]dyadic{alpha}), flList(out), qList(xs)),
				map[string]interface{}{"op": "IncompleteGamma", "alpha": alpha.f(), "xmax": xs[npts-1].f()})
			stats_["IncompleteGamma"]++
			if exact {
				// certify two grid points against the series definition with the exact Gamma(p)
				for c := 0; c < 2; c++ {
					k := 1 + r.Intn(npts-1)
					x := xs[k]
					if x.f() > 12 || x.num == 0 || math.IsNaN(out[k]) || math.IsInf(out[k], 0) || out[k] < 0 {
						continue
					}
					N := int(4*x.f()) + 30
					X := big.NewRat(int64(x.num), int64(x.den))
					P := big.NewRat(int64(alpha.num), int64(alpha.den))
					// Horner form of sum_{n<=N} x^n/((p+1)...(p+n)) and the last term, in exact rationals
					h := big.NewRat(1, 1)
					for n := N; n >= 1; n-- {
						q := new(big.Rat).Quo(X, new(big.Rat).Add(P, big.NewRat(int64(n), 1)))
						h = new(big.Rat).Add(big.NewRat(1, 1), new(big.Rat).Mul(q, h))
					}
					term := big.NewRat(1, 1)
					for n := 1; n <= N; n++ {
						term.Mul(term, new(big.Rat).Quo(X, new(big.Rat).Add(P, big.NewRat(int64(n), 1))))
					}
					q := new(big.Rat).Quo(X, new(big.Rat).Add(P, big.NewRat(int64(N+1), 1)))
					tail := new(big.Rat).Mul(term, new(big.Rat).Quo(q, new(big.Rat).Sub(big.NewRat(1, 1), q)))
					// round the exact rationals outward to 2^-120 to keep the literals small
					scale := new(big.Int).Lsh(big.NewInt(1), 120)
					round := func(v *big.Rat, up bool) *big.Rat {
						n := new(big.Int).Mul(v.Num(), scale)
						n.Quo(n, v.Denom())
						if up {
							n.Add(n, big.NewInt(1))
						}
						return new(big.Rat).SetFrac(n, scale)
					}
					addCert(fmt.Sprintf("cert_incgamma (%d / %d) (%d / %d) %s %s %s %s (1/10000000)", x.num, x.den, alpha.num, alpha.den,
						gammaTerm(twoP), ratLit(round(h, false)), ratLit(round(tail, true)), realLit(out[k])),
						map[string]interface{}{"what": "IncompleteGamma:series", "alpha": alpha.f(), "x": x.f(), "terms": N, "go_value": fmt.Sprint(out[k])})
				}
			}
		}
	}
	flush()
	var cm bytes.Buffer
	for _, m := range certMeta {
		b, _ := jsonMarshal(m)
		cm.Write(b)
		cm.WriteByte('\n')
	}
	os.WriteFile(g.out+"_certs.jsonl", cm.Bytes(), 0644)
	stats_["certificates"] = ncert
	if g.only >= 0 {
		w.terms = w.terms[g.only : g.only+1]
		w.meta = w.meta[g.only : g.only+1]
	}
	if err := w.flush(g.out, "C20", g.per); err != nil {
		return err
	}
	writeStats(g.out, stats_)
	return nil
}
