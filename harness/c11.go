package main

// C11: the command line is reproducible (same input, flags and seed => same bytes).

import (
	"bytes"
	"encoding/hex"
	"fmt"
	"math/rand"
	"os"
	"os/exec"
	"path/filepath"
	"strings"
	"time"
)

func init() { register("c11", c11) }

type cliOut struct {
	stdout string
	rc     int
}

func runCLI(bin, dir string, args ...string) cliOut {
	cmd := exec.Command(bin, args...)
	cmd.Dir = dir
	var so, se bytes.Buffer
	cmd.Stdout, cmd.Stderr = &so, &se
	done := make(chan error, 1)
	if err := cmd.Start(); err != nil {
		return cliOut{"", -2}
	}
	go func() { done <- cmd.Wait() }()
	select {
	case err := <-done:
		rc := 0
		if err != nil {
			rc = 1
			if ee, ok := err.(*exec.ExitError); ok {
				rc = ee.ExitCode()
			}
		}
		return cliOut{so.String(), rc}
	case <-time.After(30 * time.Second):
		cmd.Process.Kill()
		return cliOut{so.String(), -3}
	}
}

func c11(args []string) error {
	g, err := parseGenFlags("c11", args)
	if err != nil {
		return err
	}
	bin := os.Getenv("VERIF_GOALIGN_BIN")
	if bin == "" {
		return fmt.Errorf("VERIF_GOALIGN_BIN is not set")
	}
	r := rand.New(rand.NewSource(g.seed))
	w := newCaseWriter("C11")
	stats := map[string]int{}
	tmp, err := os.MkdirTemp("", "verif-c11-")
	if err != nil {
		return err
	}
	defer os.RemoveAll(tmp)
	safeNames := []string{"s1", "seq4", "A", "b", "Seq_3", "x", "t0", "long_name_1", "Hs", "Mm2"}
	bsList := func(l []string) string {
		it := make([]string, len(l))
		for i, s := range l {
			it[i] = coqStr(s)
		}
		return coqList(it)
	}
	emit := func(kind int, what string, names, seqs []string, tape []int64, n int, frac dyadic, shuffle bool, o1, o2 []string, rc1, rc2 int, meta map[string]interface{}) {
		tt := "[]"
		if tape != nil {
			tt = coqZ64List(tape)
		}
		w.add(fmt.Sprintf("mk %d %s %s %s %d %s %v %s %s %s %s", kind, coqStr(what), coqRows(names, seqs), tt, n, frac.coq(), shuffle,
			bsList(o1), bsList(o2), coqZ(rc1), coqZ(rc2)), meta)
	}
	type tmpl struct {
		name   string
		args   []string
		seeded bool
		noIn   bool
	}
	tmpls := []tmpl{
		{"random", []string{"random", "-n", "4", "-l", "12"}, true, true},
		{"shuffle sites", []string{"shuffle", "sites", "-r", "0.5"}, true, false},
		{"shuffle seqs", []string{"shuffle", "seqs"}, true, false},
		{"shuffle swap", []string{"shuffle", "swap", "-r", "0.5"}, true, false},
		{"shuffle recomb", []string{"shuffle", "recomb", "-n", "0.5", "-l", "0.5"}, true, false},
		{"shuffle rogue", []string{"shuffle", "rogue", "-n", "0.5", "-l", "0.5"}, true, false},
		{"sample sites", []string{"sample", "sites", "-l", "4", "-n", "2"}, true, false},
		{"sample seqs", []string{"sample", "seqs", "-n", "2"}, true, false},
		{"mutate snvs", []string{"mutate", "snvs", "-r", "0.3"}, true, false},
		{"mutate gaps", []string{"mutate", "gaps", "-n", "0.5", "-r", "0.5"}, true, false},
		{"build distboot k2p", []string{"build", "distboot", "-n", "3", "-m", "k2p"}, true, false},
		{"build distboot f81 frac", []string{"build", "distboot", "-n", "2", "-m", "f81", "-f", "0.5"}, true, false},
		{"build weightboot", []string{"build", "weightboot", "-n", "2"}, true, false},
		{"compute distance k2p", []string{"compute", "distance", "-m", "k2p"}, false, false},
		{"compute distance f84", []string{"compute", "distance", "-m", "f84"}, false, false},
		{"compute distance pdist", []string{"compute", "distance", "-m", "pdist", "--gap-mut", "1"}, false, false},
		{"stats", []string{"stats"}, false, false},
		{"stats char", []string{"stats", "char"}, false, false},
		{"stats maxchar", []string{"stats", "maxchar"}, false, false},
		{"stats per sequence", []string{"stats", "--per-sequences"}, false, false},
		{"stats gaps", []string{"stats", "gaps"}, false, false},
		{"consensus", []string{"consensus"}, false, false},
		{"clean sites", []string{"clean", "sites"}, false, false},
		{"compress", []string{"compress"}, false, false},
		{"sort", []string{"sort"}, false, false},
		{"dedup", []string{"dedup"}, false, false},
		{"translate", []string{"translate", "--phase", "0"}, false, false},
		{"compute entropy", []string{"compute", "entropy"}, false, false},
		{"compute pssm", []string{"compute", "pssm"}, false, false},
		{"reformat phylip", []string{"reformat", "phylip"}, false, false},
		{"reformat nexus", []string{"reformat", "nexus"}, false, false},
		{"reformat clustal", []string{"reformat", "clustal"}, false, false},
	}
	fmtFlag := map[string]string{"fasta": "", "phylip": "-p", "nexus": "-x", "clustal": "-u"}
	formats := []string{"fasta", "phylip", "nexus", "clustal"}

	for i := 0; i < g.n; i++ {
		nseq := 2 + r.Intn(4)
		L := 6 + r.Intn(70)
		names := append([]string{}, safeNames...)
		r.Shuffle(len(names), func(a, b int) { names[a], names[b] = names[b], names[a] })
		names = names[:nseq]
		base := randSeq(r, L, func(r *rand.Rand) byte { return "ACGT"[r.Intn(4)] })
		seqs := make([]string, nseq)
		for k := range seqs {
			b := []byte(base)
			for j := range b {
				if r.Intn(6) == 0 {
					b[j] = "ACGT"[r.Intn(4)]
				}
				if r.Intn(40) == 0 {
					b[j] = '-'
				}
			}
			seqs[k] = string(b)
		}
		dir, _ := os.MkdirTemp(tmp, "c")
		in := filepath.Join(dir, "in.fa")
		var fa strings.Builder
		for k := range seqs {
			fmt.Fprintf(&fa, ">%s\n%s\n", names[k], seqs[k])
		}
		os.WriteFile(in, []byte(fa.String()), 0644)
		seed := r.Int63n(1 << 40)
		if r.Intn(8) == 0 { // every seed but the documented -1 (clock) must be honoured
			seed = []int64{0, -2, -7, -9223372036854775808, 9223372036854775807}[r.Intn(5)]
		}
		t2 := []int{2, 3, 8, 16}[r.Intn(4)]
		switch kind := r.Intn(15); {
		case kind >= 13: // commands whose result is a file: two runs must write the same bytes
			readHex := func(fn string) string {
				b, e := os.ReadFile(fn)
				if e != nil {
					return "unreadable"
				}
				return hex.EncodeToString(b)
			}
			if kind == 13 && r.Intn(3) == 0 {
				// a compressed output file written twice, more than a second apart: the bytes may not carry the clock
				ext := []string{".gz", ".gz", ".xz", ".bz2"}[r.Intn(4)]
				o1f, o2f := filepath.Join(dir, "o1.ph"+ext), filepath.Join(dir, "o2.ph"+ext)
				a1 := runCLI(bin, dir, "reformat", "phylip", "-i", in, "-o", o1f)
				time.Sleep(1100 * time.Millisecond)
				a2 := runCLI(bin, dir, "reformat", "phylip", "-i", in, "-o", o2f)
				emit(0, "reformat phylip -o file"+ext, names, seqs, nil, 0, dyadic{1, 1}, false, []string{a1.stdout, readHex(o1f)}, []string{a2.stdout, readHex(o2f)}, a1.rc, a2.rc,
					map[string]interface{}{"op": "twice:reformat -o " + ext, "names": names, "seqs": seqs, "rc": a1.rc})
				stats["twice:reformat -o "+ext]++
			} else if kind == 13 {
				// sample rarefy with a seed: counts with ties (the draw must not depend on the order of a Go map)
				// (its own input: eight sequences, most counts equal, so that an order taken from a map shows)
				cf := filepath.Join(dir, "counts.txt")
				rin := filepath.Join(dir, "rarefy.fa")
				var cb, rf strings.Builder
				for k := 0; k < 8; k++ {
					fmt.Fprintf(&cb, "q%d\t%d\n", k, []int{5, 5, 5, 3}[r.Intn(4)])
					fmt.Fprintf(&rf, ">q%d\n%s\n", k, randSeq(r, 6, func(r *rand.Rand) byte { return "ACGT"[r.Intn(4)] }))
				}
				os.WriteFile(cf, []byte(cb.String()), 0644)
				os.WriteFile(rin, []byte(rf.String()), 0644)
				in := rin
				nb := 2 + r.Intn(6)
				a1 := runCLI(bin, dir, "sample", "rarefy", "-i", in, "-c", cf, "-n", fmt.Sprint(nb), "--seed", fmt.Sprint(seed))
				outs1, outs2 := []string{a1.stdout}, []string{}
				rc2 := a1.rc
				for q := 0; q < 6; q++ { // several executions: the order of a map changes from run to run
					a2 := runCLI(bin, dir, "sample", "rarefy", "-i", in, "-c", cf, "-n", fmt.Sprint(nb), "--seed", fmt.Sprint(seed))
					if a2.stdout != a1.stdout || a2.rc != a1.rc || q == 5 {
						outs2, rc2 = []string{a2.stdout}, a2.rc
						break
					}
				}
				emit(0, "sample rarefy", names, seqs, nil, 0, dyadic{1, 1}, false, outs1, outs2, a1.rc, rc2,
					map[string]interface{}{"op": "twice:sample rarefy", "rseed": seed, "names": names, "seqs": seqs, "rc": a1.rc})
				stats["twice:sample rarefy"]++
			} else if kind == 14 && r.Intn(4) == 0 {
				// seeded bootstrap archive, written twice more than a second apart
				a1 := runCLI(bin, dir, "build", "seqboot", "-i", in, "-n", "2", "--seed", fmt.Sprint(seed), "--tar", "-o", filepath.Join(dir, "boot1"))
				time.Sleep(1100 * time.Millisecond)
				a2 := runCLI(bin, dir, "build", "seqboot", "-i", in, "-n", "2", "--seed", fmt.Sprint(seed), "--tar", "-o", filepath.Join(dir, "boot1b"))
				t1, t2b := readHex(filepath.Join(dir, "boot1.tar")), readHex(filepath.Join(dir, "boot1b.tar"))
				// the member names carry the prefix: only their length may differ; compare with the same prefix length
				os.Rename(filepath.Join(dir, "boot1b.tar"), filepath.Join(dir, "gone.tar"))
				emit(0, "build seqboot --tar", names, seqs, nil, 0, dyadic{1, 1}, false, []string{a1.stdout, fmt.Sprint(len(t1))}, []string{a2.stdout, fmt.Sprint(len(t2b))}, a1.rc, a2.rc,
					map[string]interface{}{"op": "twice:seqboot --tar", "rseed": seed, "names": names, "seqs": seqs, "rc": a1.rc})
				// same prefix, written twice (the second run overwrites): bytes must be identical
				b1 := runCLI(bin, dir, "build", "seqboot", "-i", in, "-n", "2", "--seed", fmt.Sprint(seed), "--tar", "-o", filepath.Join(dir, "bootx"))
				x1 := readHex(filepath.Join(dir, "bootx.tar"))
				time.Sleep(1100 * time.Millisecond)
				b2 := runCLI(bin, dir, "build", "seqboot", "-i", in, "-n", "2", "--seed", fmt.Sprint(seed), "--tar", "-o", filepath.Join(dir, "bootx"))
				x2 := readHex(filepath.Join(dir, "bootx.tar"))
				emit(0, "build seqboot --tar (bytes)", names, seqs, nil, 0, dyadic{1, 1}, false, []string{x1}, []string{x2}, b1.rc, b2.rc,
					map[string]interface{}{"op": "twice:seqboot --tar bytes", "rseed": seed, "names": names, "seqs": seqs, "rc": b1.rc})
				stats["twice:seqboot --tar"]++
			} else {
				m1, m2 := filepath.Join(dir, "map1.txt"), filepath.Join(dir, "map2.txt")
				a1 := runCLI(bin, dir, "trim", "name", "-a", "-i", in, "-m", m1)
				a2 := runCLI(bin, dir, "trim", "name", "-a", "-i", in, "-m", m2)
				emit(0, "trim name -a -m", names, seqs, nil, 0, dyadic{1, 1}, false, []string{a1.stdout, readHex(m1)}, []string{a2.stdout, readHex(m2)}, a1.rc, a2.rc,
					map[string]interface{}{"op": "twice:trim name -m", "names": names, "seqs": seqs, "rc": a1.rc})
				stats["twice:trim name -m"]++
			}
		case kind < 5: // the same command twice, different thread counts
			t := tmpls[r.Intn(len(tmpls))]
			mk := func(threads int) []string {
				a := append([]string{}, t.args...)
				if !t.noIn {
					a = append(a, "-i", in)
				}
				if t.seeded {
					a = append(a, "--seed", fmt.Sprint(seed))
				}
				return append(a, "-t", fmt.Sprint(threads))
			}
			o1 := runCLI(bin, dir, mk(1)...)
			o2 := runCLI(bin, dir, mk(t2)...)
			emit(0, t.name, names, seqs, nil, 0, dyadic{1, 1}, false, []string{o1.stdout}, []string{o2.stdout}, o1.rc, o2.rc,
				map[string]interface{}{"op": "twice:" + t.name, "threads": t2, "rseed": seed, "names": names, "seqs": seqs, "rc": o1.rc})
			stats["twice:"+t.name]++
			if o1.rc != 0 {
				stats["twice:"+t.name+":rc!=0"]++
			}
		case kind < 7: // build seqboot against the model, and twice
			if L > 14 { // keep the tape short
				L = 3 + r.Intn(12)
				for k := range seqs {
					seqs[k] = seqs[k][:L]
				}
				fa.Reset()
				for k := range seqs {
					fmt.Fprintf(&fa, ">%s\n%s\n", names[k], seqs[k])
				}
				os.WriteFile(in, []byte(fa.String()), 0644)
			}
			n := 1 + r.Intn(3)
			frac := []dyadic{{1, 1}, {1, 2}, {3, 4}}[r.Intn(3)]
			shuffle := r.Intn(2) == 0
			run := func(sub string, threads int) ([]string, int) {
				d := filepath.Join(dir, sub)
				os.Mkdir(d, 0755)
				a := []string{"build", "seqboot", "-i", in, "-n", fmt.Sprint(n), "-f", fmt.Sprint(frac.f()), "--seed", fmt.Sprint(seed), "-o", filepath.Join(d, "b_"), "-t", fmt.Sprint(threads)}
				if shuffle {
					a = append(a, "-S")
				}
				o := runCLI(bin, dir, a...)
				files := []string{}
				for k := 0; k < n; k++ {
					b, e := os.ReadFile(filepath.Join(d, fmt.Sprintf("b_%d.fa", k)))
					if e != nil {
						files = append(files, "<missing>")
					} else {
						files = append(files, string(b))
					}
				}
				return files, o.rc
			}
			f1, rc1 := run("r1", 1)
			f2, rc2 := run("r2", t2)
			emit(1, "build seqboot", names, seqs, rawTape(seed, 40+n*(L+nseq+4)), n, frac, shuffle, f1, f2, rc1, rc2,
				map[string]interface{}{"op": "seqboot", "n": n, "frac": frac.f(), "shuffle": shuffle, "threads": t2, "rseed": seed, "names": names, "seqs": seqs})
			stats["seqboot"]++
		case kind == 12: // phase / phasent / orf on many sequences: the workers finish in any order
			orf := "ATG"
			for k := 0; k < 12+r.Intn(10); k++ {
				c := randSeq(r, 3, func(r *rand.Rand) byte { return "ACGT"[r.Intn(4)] })
				if c == "TAA" || c == "TAG" || c == "TGA" {
					c = "GCT"
				}
				orf += c
			}
			orf += "TAA"
			nb := 25 + r.Intn(40)
			var fb strings.Builder
			mnames, mseqs := []string{}, []string{}
			for k := 0; k < nb; k++ {
				b := []byte(orf)
				for j := range b {
					if r.Intn(15) == 0 {
						b[j] = "ACGT"[r.Intn(4)]
					}
				}
				sq := randSeq(r, r.Intn(15), func(r *rand.Rand) byte { return "ACGT"[r.Intn(4)] }) + string(b) +
					randSeq(r, r.Intn(15), func(r *rand.Rand) byte { return "ACGT"[r.Intn(4)] })
				nm := fmt.Sprintf("q%03d", k)
				fmt.Fprintf(&fb, ">%s\n%s\n", nm, sq)
				mnames, mseqs = append(mnames, nm), append(mseqs, sq)
			}
			many := filepath.Join(dir, "many.fa")
			os.WriteFile(many, []byte(fb.String()), 0644)
			sub := []string{"phase", "phasent", "orf"}[r.Intn(3)]
			run := func(threads int, tag string) (string, int) {
				out := filepath.Join(dir, "out-"+tag)
				a := []string{sub, "-i", many, "-o", out, "-t", fmt.Sprint(threads)}
				if sub != "orf" {
					a = append(a, "--unaligned", "-l", out+".log")
				} else if nb%2 == 0 {
					a = append(a, "--reverse")
				}
				o := runCLI(bin, dir, a...)
				b1, _ := os.ReadFile(out)
				b2, _ := os.ReadFile(out + ".log")
				return o.stdout + "\x00" + string(b1) + "\x00" + string(b2), o.rc
			}
			tt := []int{4, 8, 16}[r.Intn(3)]
			o1, rc1 := run(1, "a")
			o2, rc2 := run(tt, "b")
			emit(0, sub+" many sequences", mnames[:3], mseqs[:3], nil, 0, dyadic{1, 1}, false, []string{o1}, []string{o2}, rc1, rc2,
				map[string]interface{}{"op": "twice:" + sub + "-many", "threads": tt, "nseq": nb, "rc": rc1})
			stats["twice:"+sub+"-many"]++
			if rc1 != 0 {
				stats["twice:"+sub+"-many:rc!=0"]++
			}
		case kind >= 10: // reformat phylip / fasta: stdout predicted by the writer models
			if kind == 10 {
				v := r.Intn(4)
				a := []string{"reformat", "phylip", "-i", in}
				a = append(a, [][]string{{}, {"--one-line"}, {"--no-block"}, {"--output-strict"}}[v]...)
				o1 := runCLI(bin, dir, append(a, "-t", "1")...)
				o2 := runCLI(bin, dir, append(a, "-t", fmt.Sprint(t2))...)
				emit(4, "reformat phylip", names, seqs, nil, v, dyadic{1, 1}, false, []string{o1.stdout}, []string{o2.stdout}, o1.rc, o2.rc,
					map[string]interface{}{"op": "reformat-phylip-model", "variant": v, "names": names, "seqs": seqs})
				stats["reformat-phylip-model"]++
			} else {
				v := r.Intn(3)
				f := []string{"fasta", "nexus", "clustal"}[v]
				a := []string{"reformat", f, "-i", in}
				o1 := runCLI(bin, dir, append(a, "-t", "1")...)
				o2 := runCLI(bin, dir, append(a, "-t", fmt.Sprint(t2))...)
				emit(5+v, "reformat "+f, names, seqs, nil, 0, dyadic{1, 1}, false, []string{o1.stdout}, []string{o2.stdout}, o1.rc, o2.rc,
					map[string]interface{}{"op": "reformat-" + f + "-model", "names": names, "seqs": seqs})
				stats["reformat-"+f+"-model"]++
			}
		case kind < 9: // reformat chain back to the starting format
			start := formats[r.Intn(len(formats))]
			cur := filepath.Join(dir, "f0")
			o := runCLI(bin, dir, "reformat", start, "-i", in, "-o", cur)
			rc := o.rc
			orig, _ := os.ReadFile(cur)
			curFmt := start
			chain := []string{start}
			steps := 1 + r.Intn(4)
			for s := 0; s <= steps && rc == 0; s++ {
				next := formats[r.Intn(len(formats))]
				if s == steps {
					next = start
				}
				nf := filepath.Join(dir, fmt.Sprintf("f%d", s+1))
				a := []string{"reformat", next, "-i", cur, "-o", nf}
				if fmtFlag[curFmt] != "" {
					a = append(a, fmtFlag[curFmt])
				}
				o := runCLI(bin, dir, a...)
				rc = o.rc
				cur, curFmt = nf, next
				chain = append(chain, next)
			}
			final, _ := os.ReadFile(cur)
			emit(2, "reformat chain "+strings.Join(chain, ">"), names, seqs, nil, 0, dyadic{1, 1}, false, []string{string(orig)}, []string{string(final)}, rc, rc,
				map[string]interface{}{"op": "reformat-chain", "chain": strings.Join(chain, ">"), "names": names, "seqs": seqs, "rc": rc})
			stats["reformat-chain"]++
		default: // distboot = seqboot + compute distance
			n := 2 + r.Intn(2)
			model := []string{"k2p", "jc", "pdist", "f81", "f84", "tn93", "rawdist"}[r.Intn(7)]
			o1 := runCLI(bin, dir, "build", "distboot", "-i", in, "-n", fmt.Sprint(n), "-m", model, "--seed", fmt.Sprint(seed), "-t", fmt.Sprint(t2))
			d := filepath.Join(dir, "sb")
			os.Mkdir(d, 0755)
			o2 := runCLI(bin, dir, "build", "seqboot", "-i", in, "-n", fmt.Sprint(n), "--seed", fmt.Sprint(seed), "-o", filepath.Join(d, "b_"))
			rc2 := o2.rc
			var cat strings.Builder
			for k := 0; k < n && rc2 == 0; k++ {
				o := runCLI(bin, dir, "compute", "distance", "-m", model, "-i", filepath.Join(d, fmt.Sprintf("b_%d.fa", k)))
				cat.WriteString(o.stdout)
				if o.rc != 0 {
					rc2 = o.rc
				}
			}
			emit(3, "distboot vs seqboot+distance "+model, names, seqs, nil, n, dyadic{1, 1}, false, []string{o1.stdout}, []string{cat.String()}, o1.rc, rc2,
				map[string]interface{}{"op": "distboot-vs-seqboot", "model": model, "n": n, "rseed": seed, "names": names, "seqs": seqs})
			stats["distboot-vs-seqboot"]++
		}
		os.RemoveAll(dir)
	}
	if g.only >= 0 {
		w.terms = w.terms[g.only : g.only+1]
		w.meta = w.meta[g.only : g.only+1]
	}
	if err := w.flush(g.out, "C11", g.per); err != nil {
		return err
	}
	writeStats(g.out, stats)
	return nil
}
