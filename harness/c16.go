package main

// C16: phasing gives one correctly framed result per sequence for any thread count; LongestORF.

import (
	"bytes"
	"fmt"
	"math/rand"
	"os"
	"os/exec"
	"path/filepath"
	"sort"
	"strings"
	"time"

	"github.com/evolbioinfo/goalign/align"
	"github.com/evolbioinfo/goalign/io/fasta"
)

func init() { register("c16", c16) }

type c16res struct {
	name          string
	removed       bool
	pos           int
	nt, codon, aa string
}

func (r c16res) coq() string {
	return fmt.Sprintf("mkres %s %v %s %s %s %s", coqStr(r.name), r.removed, coqZ(r.pos), coqStr(r.nt), coqStr(r.codon), coqStr(r.aa))
}

func revcompStr(s string) string {
	m := map[byte]byte{'A': 'T', 'C': 'G', 'G': 'C', 'T': 'A'}
	b := make([]byte, len(s))
	for i := range b {
		b[i] = m[s[len(s)-1-i]]
	}
	return string(b)
}

// runs Phase and drains the stream under a watchdog
func runPhase(names, seqs []string, orfNames, orfs []string, translate, reverse, cutend bool, code, cpus int) (res []c16res, errored, closed bool, after []string, class string) {
	class, _ = guarded(20*time.Second, func() error {
		sb := mkSeqBag(align.NUCLEOTIDS, names, seqs)
		var ob align.SeqBag
		if orfs != nil {
			ob = mkSeqBag(align.NUCLEOTIDS, orfNames, orfs)
		}
		ph := align.NewPhaser()
		ph.SetCpus(cpus)
		ph.SetReverse(reverse)
		ph.SetCutEnd(cutend)
		if e := ph.SetTranslate(translate, code); e != nil {
			errored = true
			closed = true
			return nil
		}
		ch, e := ph.Phase(ob, sb)
		if e != nil {
			errored = true
			closed = true
			_, after = alignContent(sb)
			return nil
		}
		timeout := time.After(10 * time.Second)
	loop:
		for {
			select {
			case p, ok := <-ch:
				if !ok {
					closed = true
					break loop
				}
				if p.Err != nil {
					errored = true
					continue
				}
				r := c16res{removed: p.Removed, pos: p.Position}
				if p.NtSeq != nil {
					r.name = p.NtSeq.Name()
					r.nt = string(p.NtSeq.SequenceChar())
				}
				if p.CodonSeq != nil {
					r.codon = string(p.CodonSeq.SequenceChar())
				}
				if p.AaSeq != nil {
					r.aa = string(p.AaSeq.SequenceChar())
				}
				res = append(res, r)
			case <-timeout:
				break loop
			}
		}
		_, after = alignContent(sb)
		return nil
	})
	sort.Slice(res, func(i, j int) bool { return res[i].name < res[j].name })
	return
}

func c16(args []string) error {
	g, err := parseGenFlags("c16", args)
	if err != nil {
		return err
	}
	r := rand.New(rand.NewSource(g.seed))
	w := newCaseWriter("C16")
	stats := map[string]int{}
	stops := map[string]bool{"TAA": true, "TAG": true, "TGA": true, "AGA": true, "AGG": true} // incl. vertebrate mito stops
	randCodon := func() string {
		for {
			c := randSeq(r, 3, func(r *rand.Rand) byte { return "ACGT"[r.Intn(4)] })
			if !stops[c] {
				return c
			}
		}
	}
	flank := func(max int) string {
		return randSeq(r, r.Intn(max+1), func(r *rand.Rand) byte { return "ACGT"[r.Intn(4)] })
	}
	resList := func(l []c16res) string {
		it := make([]string, len(l))
		for i, x := range l {
			it[i] = x.coq()
		}
		return coqList(it)
	}
	for i := 0; i < g.n; i++ {
		orf := "ATG"
		for k, n := 0, 4+r.Intn(10); k < n; k++ {
			orf += randCodon()
		}
		orf += []string{"TAA", "TAG", "TGA"}[r.Intn(3)]
		// goalign phasent: the codon output (--nt-output) is in the frame of the ORF, it translates to --aa-output;
		// sequences lacking the first k nucleotides of the ORF start inside a codon
		if bin := os.Getenv("VERIF_GOALIGN_BIN"); bin != "" && r.Intn(6) == 0 {
			if tmpd, e := os.MkdirTemp("", "c16cli"); e == nil {
				cn, cs := []string{}, []string{}
				var fa strings.Builder
				for k, n := 0, 2+r.Intn(3); k < n; k++ {
					cut := []int{0, 1, 2, 4, 5, 7, 8, 3}[r.Intn(8)]
					sq := orf[cut:] + flank(6)
					if r.Intn(3) == 0 {
						sq = flank(5) + orf + flank(4)
					}
					cn, cs = append(cn, fmt.Sprintf("q%d", k)), append(cs, sq)
					fmt.Fprintf(&fa, ">q%d\n%s\n", k, sq)
				}
				inf, orff := filepath.Join(tmpd, "in.fa"), filepath.Join(tmpd, "orf.fa")
				ntf, aaf := filepath.Join(tmpd, "nt.fa"), filepath.Join(tmpd, "aa.fa")
				os.WriteFile(inf, []byte(fa.String()), 0644)
				os.WriteFile(orff, []byte(">orf\n"+orf+"\n"), 0644)
				cmd := exec.Command(bin, "phasent", "-i", inf, "--unaligned", "--ref-orf", orff, "-o", filepath.Join(tmpd, "ph.fa"), "--nt-output", ntf, "--aa-output", aaf,
					"-t", fmt.Sprint(1+r.Intn(4)))
				agree := true
				note := ""
				if cmd.Run() == nil {
					read := func(fn string) map[string]string {
						m := map[string]string{}
						if b, e := os.ReadFile(fn); e == nil {
							if sb, pe := fasta.NewParser(bytes.NewReader(b)).ParseUnalign(); pe == nil {
								n, q := alignContent(sb)
								for k := range n {
									m[n[k]] = q[k]
								}
							}
						}
						return m
					}
					nt, aa := read(ntf), read(aaf)
					for name, codons := range nt {
						tr, e := align.NewSequence(name, []uint8(codons), "").Translate(0, align.GENETIC_CODE_STANDARD)
						if e != nil || string(tr.SequenceChar()) != aa[name] {
							agree = false
							note = name + ": " + codons + " does not translate to " + aa[name]
						}
					}
					if len(nt) != len(aa) {
						agree = false
					}
				}
				os.RemoveAll(tmpd)
				w.add(fmt.Sprintf("mk 2 %s None false false false 0 %v true [] [] %s None", coqRows(cn, cs), !agree, coqRows(cn, cs)),
					map[string]interface{}{"op": "cli:phasent", "names": cn, "seqs": cs, "orf": orf, "agree": agree, "note": note})
				stats["cli:phasent"]++
			}
		}
		nseq := 1 + r.Intn(5)
		names := distinctNames(r, nseq)
		seqs := make([]string, nseq)
		reverse := r.Intn(2) == 0
		for k := range seqs {
			b := []byte(orf)
			rate := []int{0, 0, 20, 8}[r.Intn(4)]
			for j := range b {
				if rate > 0 && r.Intn(rate) == 0 {
					b[j] = "ACGT"[r.Intn(4)]
				}
			}
			if rate > 0 && r.Intn(4) == 0 && len(b) > 12 { // an indel of one codon or of one base
				p := 3 + r.Intn(len(b)-9)
				if r.Intn(2) == 0 {
					b = append(b[:p], b[p+3:]...)
				} else {
					b = append(b[:p], b[p+1:]...)
				}
			}
			s := flank(12) + string(b) + flank(12)
			if reverse && r.Intn(3) == 0 {
				s = revcompStr(s)
			}
			if r.Intn(25) == 0 { // unrelated: nothing aligns with a positive score
				s = strings.Repeat("T", 6+r.Intn(4))
			}
			seqs[k] = s
		}
		if r.Intn(4) == 0 { // LongestORF alone, on sequences with several overlapping ORFs
			for k := range seqs {
				if r.Intn(2) == 0 {
					b := []byte(seqs[k])
					for t := 0; t < 3; t++ {
						if len(b) > 6 {
							copy(b[r.Intn(len(b)-3):], "ATG")
						}
					}
					seqs[k] = string(b)
				}
				if r.Intn(6) == 0 {
					seqs[k] = flank(10) // may hold no ORF at all
				}
			}
			if r.Intn(3) == 0 && len(seqs) > 0 {
				// two ORFs in one sequence: the second is exactly one codon longer and its stop codon ends the
				// sequence; one time in two the other sequences are short, so that it is the longest of the set
				cod := []string{"AAA", "CCC", "GGG", "GCA", "CTG", "TTC"}
				nc := 3 + r.Intn(5)
				orf := func(n int) string {
					o := "ATG"
					for t := 0; t < n; t++ {
						o += cod[r.Intn(len(cod))]
					}
					return o + []string{"TAA", "TAG", "TGA"}[r.Intn(3)]
				}
				seqs[0] = strings.Repeat("C", r.Intn(3)) + orf(nc) + strings.Repeat("C", 1+r.Intn(2)) + orf(nc+1)
				if r.Intn(2) == 0 {
					for k := 1; k < len(seqs); k++ {
						seqs[k] = flank(4 + r.Intn(4))
					}
				}
			}
			sb := mkSeqBag(align.NUCLEOTIDS, names, seqs)
			o, e := sb.LongestORF(reverse)
			_, after := alignContent(sb)
			ot := "None"
			if e == nil && o != nil {
				ot = "(Some " + coqStr(string(o.SequenceChar())) + ")"
			}
			w.add(fmt.Sprintf("mk 1 %s None false %v false 0 false true [] [] %s %s", coqRows(names, seqs), reverse, coqRows(names, after), ot),
				map[string]interface{}{"op": "LongestORF", "reverse": reverse, "names": names, "seqs": seqs})
			stats["LongestORF"]++
			continue
		}
		translate := r.Intn(2) == 0
		cutend := r.Intn(2) == 0
		code := r.Intn(3)
		var orfNames, orfs []string
		orfTerm := "None"
		switch r.Intn(3) {
		case 0:
		case 1:
			orfNames, orfs = []string{"ref"}, []string{orf}
		default:
			other := "ATG" + randCodon() + randCodon() + randCodon() + "TAA"
			orfNames, orfs = []string{"ref", "ref2"}, []string{orf, other}
		}
		if orfs != nil {
			orfTerm = "(Some " + coqRows(orfNames, orfs) + ")"
		}
		if !translate && len(orfs) == 1 && r.Intn(3) == 0 { // a copy lacking its first k bases at the very start
			k := []int{1, 2, 4, 5}[r.Intn(4)]
			for orf[k] == 'A' {
				k = []int{1, 2, 4, 5}[r.Intn(4)]
			}
			seqs[r.Intn(nseq)] = orf[k:] + flank(12)
			stats["Phase:5'-truncated copy"]++
		}
		cpus2 := 2 + r.Intn(7)
		res1, err1, closed1, after1, class1 := runPhase(names, seqs, orfNames, orfs, translate, reverse, cutend, code, 1)
		res2, err2, closed2, after2, class2 := runPhase(names, seqs, orfNames, orfs, translate, reverse, cutend, code, cpus2)
		closed := closed1 && closed2 && class1 == OutOk && class2 == OutOk
		after := after1
		if fmt.Sprint(after2) != fmt.Sprint(seqs) {
			after = after2
		}
		if after == nil {
			after = seqs
		}
		w.add(fmt.Sprintf("mk 0 %s %s %v %v %v %d %v %v %s %s %s None", coqRows(names, seqs), orfTerm, translate, reverse, cutend, code,
			err1 || err2, closed, resList(res1), resList(res2), coqRows(names, after)),
			map[string]interface{}{"op": "Phase", "translate": translate, "reverse": reverse, "cutend": cutend, "code": code, "cpus": cpus2,
				"names": names, "seqs": seqs, "orfs": orfs, "class": class1 + "/" + class2, "errored": err1 || err2})
		stats["Phase"]++
		if err1 || err2 {
			stats["Phase:error"]++
		}
		if class1 != OutOk || class2 != OutOk {
			stats["Phase:"+class1+"/"+class2]++
		}
	}
	if g.only >= 0 {
		w.terms = w.terms[g.only : g.only+1]
		w.meta = w.meta[g.only : g.only+1]
	}
	if err := w.flush(g.out, "C16", g.per); err != nil {
		return err
	}
	writeStats(g.out, stats)
	return nil
}
