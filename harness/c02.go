package main

// C02: every format round-trips through writer and parser.

import (
	"bufio"
	"bytes"
	"fmt"
	"math/rand"
	"os"
	"path/filepath"
	"strings"

	"github.com/evolbioinfo/goalign/align"
	"github.com/evolbioinfo/goalign/io/clustal"
	"github.com/evolbioinfo/goalign/io/fasta"
	"github.com/evolbioinfo/goalign/io/nexus"
	"github.com/evolbioinfo/goalign/io/phylip"
	"github.com/evolbioinfo/goalign/io/stockholm"
	"github.com/evolbioinfo/goalign/io/utils"
)

func init() { register("c02", c02) }

func c02(args []string) error {
	g, err := parseGenFlags("c02", args)
	if err != nil {
		return err
	}
	r := rand.New(rand.NewSource(g.seed))
	w := newCaseWriter("C02")
	stats := map[string]int{}
	tmpdir, _ := os.MkdirTemp("", "c02")
	defer os.RemoveAll(tmpdir)

	lens := []int{1, 2, 3, 9, 10, 11, 49, 50, 51, 59, 60, 61, 79, 80, 81, 100, 119, 120, 121, 160, 161}
	nameChars := "abcdefghijklmnopqrstuvwxyzABCDEFGHIJKLMNOPQRSTUVWXYZ0123456789_|.+"
	keywordNames := []string{"DATA", "end", "TREE", "gap", "CLUSTAL", "STOCKHOLM", "#x", "//", "123", "BEGIN", "matrix"}

	configs := []string{"fasta", "phylip", "phylip-oneline", "phylip-noblock", "phylip-strict", "nexus", "clustal", "stockholm",
		"fasta.gz", "phylip.xz", "auto", "multi-phylip", "multi-phylip.gz", "multi-phylip.xz"}

	for i := 0; i < g.n; i++ {
		nseq := 1 + r.Intn(5)
		L := lens[r.Intn(len(lens))]
		if r.Intn(3) == 0 {
			L = 1 + r.Intn(170)
		}
		cfg := configs[r.Intn(len(configs))]
		prot := r.Intn(3) == 0
		names := map[string]bool{}
		nl := []string{}
		for len(nl) < nseq {
			k := 1 + r.Intn(12)
			if cfg == "phylip-strict" {
				k = 1 + r.Intn(10)
			}
			n := randSeq(r, k, func(r *rand.Rand) byte { return nameChars[r.Intn(len(nameChars))] })
			if r.Intn(40) == 0 {
				n = keywordNames[r.Intn(len(keywordNames))]
			}
			if !names[n] {
				names[n] = true
				nl = append(nl, n)
			}
		}
		if nseq >= 2 && r.Intn(12) == 0 {
			// two names that differ by letter case only
			alt := strings.ToUpper(nl[0])
			if alt == nl[0] {
				alt = strings.ToLower(nl[0])
			}
			if alt != nl[0] && !names[alt] {
				delete(names, nl[1])
				nl[1] = alt
				names[alt] = true
			}
		}
		seqs := make([]string, nseq)
		for k := range seqs {
			if prot {
				seqs[k] = randSeq(r, L, func(r *rand.Rand) byte { return "ARNDCQEGHILKMFPSTWYVarndcqeghilkmfpstwyv-*?XBZ"[r.Intn(46)] })
			} else {
				seqs[k] = randSeq(r, L, func(r *rand.Rand) byte { return "ACGTACGTACGTacgtRYSWKMBDHVNryswkmbdhvn-*?"[r.Intn(41)] })
			}
		}
		if r.Intn(12) == 0 {
			// rows that spell words a lexer could take for something else (numbers, keywords)
			words := []string{"NAN", "nan", "INF", "Inf", "INFINITY", "infinity", "NaN", "END", "GAP", "TREE", "DATA"}
			wd := words[r.Intn(len(words))]
			L = len(wd)
			for k := range seqs {
				seqs[k] = randSeq(r, L, func(r *rand.Rand) byte { return "ACGT"[r.Intn(4)] })
			}
			seqs[r.Intn(nseq)] = wd
			if r.Intn(2) == 0 {
				seqs[r.Intn(nseq)] = words[r.Intn(len(words))][:1] + strings.Repeat("A", L-1)
			}
		}
		a, e := mkAlign(align.UNKNOWN, nl, seqs)
		if e != nil {
			continue
		}
		a.AutoAlphabet()
		inAlpha := a.Alphabet()
		var written []byte
		var outN, outS []string
		outLen, outAlpha, fmtDetected := -2, -1, -1
		class, msg := guarded(20e9, func() error {
			var al align.Alignment
			var e error
			parseStr := func(s string, f string) (align.Alignment, error) {
				switch f {
				case "fasta":
					return fasta.NewParser(strings.NewReader(s)).Parse()
				case "phylip", "phylip-oneline", "phylip-noblock":
					return phylip.NewParser(strings.NewReader(s), false).Parse()
				case "phylip-strict":
					return phylip.NewParser(strings.NewReader(s), true).Parse()
				case "nexus":
					return nexus.NewParser(strings.NewReader(s)).Parse()
				case "clustal":
					return clustal.NewParser(strings.NewReader(s)).Parse()
				case "stockholm":
					return stockholm.NewParser(strings.NewReader(s)).Parse()
				}
				return nil, fmt.Errorf("unknown format")
			}
			write := func(f string) string {
				switch f {
				case "fasta":
					return fasta.WriteAlignment(a)
				case "phylip":
					return phylip.WriteAlignment(a, false, false, false)
				case "phylip-oneline":
					return phylip.WriteAlignment(a, false, true, false)
				case "phylip-noblock":
					return phylip.WriteAlignment(a, false, false, true)
				case "phylip-strict":
					return phylip.WriteAlignment(a, true, false, false)
				case "nexus":
					return nexus.WriteAlignment(a)
				case "clustal":
					return clustal.WriteAlignment(a)
				case "stockholm":
					return stockholm.WriteAlignment(a)
				}
				return ""
			}
			switch cfg {
			case "fasta.gz", "phylip.xz":
				base := strings.Split(cfg, ".")[0]
				fn := filepath.Join(tmpdir, fmt.Sprintf("f%d.%s", i, cfg))
				f, e := utils.OpenWriteFile(fn)
				if e != nil {
					return e
				}
				written = []byte(write(base))
				f.WriteString(string(written))
				utils.CloseWriteFile(f, fn)
				format := align.FORMAT_FASTA
				if base == "phylip" {
					format = align.FORMAT_PHYLIP
				}
				al, e = utils.ReadAlign(fn, format, align.BOTH)
				if e != nil {
					return e
				}
			case "auto":
				base := []string{"fasta", "phylip", "nexus", "clustal"}[r.Intn(4)]
				written = []byte(write(base))
				al, fmtDetected, e = utils.ParseAlignmentAuto(bufio.NewReader(bytes.NewReader(written)), false)
				if e != nil {
					return e
				}
				want := map[string]int{"fasta": align.FORMAT_FASTA, "phylip": align.FORMAT_PHYLIP, "nexus": align.FORMAT_NEXUS, "clustal": align.FORMAT_CLUSTAL}[base]
				if fmtDetected != want {
					fmtDetected = -100 - fmtDetected
				}
			case "multi-phylip.gz", "multi-phylip.xz":
				// a stream of alignments of very different sizes through the compressed writers, one
				// WriteString per alignment: a, a wide copy of a (beyond every buffer size), a
				wide := align.NewAlign(a.Alphabet())
				rep := 1 + 9000/(L*nseq)
				for q, nm := range nl {
					wide.AddSequence(nm, strings.Repeat(seqs[q], rep), "")
				}
				var wa align.Alignment = wide
				stream := []align.Alignment{a, wa, a}
				if r.Intn(2) == 0 {
					stream = []align.Alignment{wa, a, a, wa, a}
				}
				suffix := cfg[len("multi-phylip"):]
				if r.Intn(3) == 0 {
					suffix = "" // a plain file
				}
				fn := filepath.Join(tmpdir, fmt.Sprintf("m%d.phy%s", i, suffix))
				f, e := utils.OpenWriteFile(fn)
				if e != nil {
					return e
				}
				for _, x := range stream {
					f.WriteString(phylip.WriteAlignment(x, false, false, false))
				}
				utils.CloseWriteFile(f, fn)
				written = []byte(phylip.WriteAlignment(a, false, false, false))
				fc, rd, e := utils.GetReader(fn)
				if e != nil {
					return e
				}
				defer fc.Close()
				chv := align.AlignChannel{Achan: make(chan align.Alignment, 50)}
				ch := &chv
				if r.Intn(2) == 0 { // through format detection, which owns the file until the stream is consumed
					if ch, _, e = utils.ParseMultiAlignmentsAuto(fc, rd, false, align.BOTH); e != nil {
						return e
					}
				} else {
					go phylip.NewParser(rd, false).ParseMultiple(ch)
				}
				cnt := 0
				for x := range ch.Achan {
					if cnt < len(stream) {
						n1, s1 := alignContent(stream[cnt])
						n2, s2 := alignContent(x)
						if fmt.Sprint(n2) != fmt.Sprint(n1) || fmt.Sprint(s2) != fmt.Sprint(s1) {
							return fmt.Errorf("alignment %d of the compressed stream differs from the one written at that position", cnt)
						}
					}
					al = x
					cnt++
				}
				if ch.Err != nil {
					return ch.Err
				}
				if cnt != len(stream) {
					return fmt.Errorf("stream of %d alignments parsed as %d", len(stream), cnt)
				}
			case "multi-phylip":
				k := 1 + r.Intn(3)
				var sb strings.Builder
				for q := 0; q < k; q++ {
					sb.WriteString(phylip.WriteAlignment(a, false, q%2 == 1, false))
				}
				written = []byte(sb.String())
				ch := align.AlignChannel{Achan: make(chan align.Alignment, 50)}
				go phylip.NewParser(bytes.NewReader(written), false).ParseMultiple(&ch)
				cnt := 0
				for x := range ch.Achan {
					n2, s2 := alignContent(x)
					if fmt.Sprint(n2) != fmt.Sprint(nl) || fmt.Sprint(s2) != fmt.Sprint(seqs) {
						return fmt.Errorf("alignment %d of the stream differs", cnt)
					}
					al = x
					cnt++
				}
				if ch.Err != nil {
					return ch.Err
				}
				if cnt != k {
					return fmt.Errorf("stream of %d alignments parsed as %d", k, cnt)
				}
			default:
				written = []byte(write(cfg))
				al, e = parseStr(string(written), cfg)
				if e != nil {
					return e
				}
			}
			if al == nil {
				return fmt.Errorf("nil alignment")
			}
			outN, outS = alignContent(al)
			outLen, outAlpha = al.Length(), al.Alphabet()
			return nil
		})
		if outN == nil {
			outN, outS = []string{}, []string{}
		}
		term := fmt.Sprintf("mk %s %s %s %s %s %s %s %s %s", coqStr(cfg), coqZ(inAlpha), coqRows(nl, seqs), coqBytes(written), coqStr(class),
			coqRows(outN, outS), coqZ(outLen), coqZ(outAlpha), coqZ(fmtDetected))
		w.add(term, map[string]interface{}{"op": "roundtrip:" + cfg, "config": cfg, "names": nl, "seqs": seqs, "class": class, "msg": msg,
			"out_names": outN, "out_len": outLen, "out_alpha": outAlpha, "in_alpha": inAlpha, "L": L})
		stats[cfg+":"+class]++
	}
	if g.only >= 0 {
		w.terms = w.terms[g.only : g.only+1]
		w.meta = w.meta[g.only : g.only+1]
	}
	if err := w.flush(g.out, "C02", g.per); err != nil {
		return err
	}
	writeStats(g.out, stats)
	return nil
}
