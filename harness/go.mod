module verifh

go 1.21.6

require (
	github.com/evolbioinfo/goalign v0.0.0
	gonum.org/v1/gonum v0.9.3
)

require (
	github.com/armon/go-radix v1.0.0 // indirect
	github.com/ulikunitz/xz v0.5.10 // indirect
	golang.org/x/exp v0.0.0-20200224162631-6cc2880d07d6 // indirect
)

replace github.com/evolbioinfo/goalign => /repo
