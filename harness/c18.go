package main

// C18: substitution models yield valid, reversible Markov transition matrices.

import (
	"bytes"
	"fmt"
	"math/rand"
	"os"

	"github.com/evolbioinfo/goalign/models"
	"github.com/evolbioinfo/goalign/models/dna"
	"github.com/evolbioinfo/goalign/models/protein"
)

func init() { register("c18", c18) }

func randSimplex(r *rand.Rand, n, den int) []dyadic {
	// strictly positive dyadic frequencies summing to 1
	for {
		cuts := make([]int, n)
		left := den
		ok := true
		for i := 0; i < n-1; i++ {
			maxv := left - (n - 1 - i)
			if maxv < 1 {
				ok = false
				break
			}
			cuts[i] = 1 + r.Intn(maxv)
			if cuts[i] > den/2 {
				cuts[i] = 1 + r.Intn(den/2)
			}
			left -= cuts[i]
		}
		if !ok || left < 1 {
			continue
		}
		cuts[n-1] = left
		out := make([]dyadic, n)
		for i := range out {
			out[i] = dyadic{cuts[i], den}
		}
		return out
	}
}

func c18(args []string) error {
	g, err := parseGenFlags("c18", args)
	if err != nil {
		return err
	}
	r := rand.New(rand.NewSource(g.seed))
	w := newCaseWriter("C18")
	stats := map[string]int{}
	kappas := []dyadic{{1, 2}, {1, 1}, {2, 1}, {8, 1}, {3, 2}}
	times := []dyadic{{1, 64}, {1, 8}, {1, 2}, {1, 1}, {2, 1}, {5, 1}}
	var certs bytes.Buffer
	ncert, certFiles := 0, 0
	certHeader := "From Coq Require Import Reals List.\nImport ListNotations.\nFrom GA.Model Require Import Markov.\nFrom GA.Corr Require Import C18Cert.\nLocal Open Scope R_scope.\n"
	certMeta := []map[string]interface{}{}
	flush := func() {
		if certs.Len() > 0 {
			os.WriteFile(fmt.Sprintf("%s_cert_%d.v", g.out, certFiles), append([]byte(certHeader), certs.Bytes()...), 0644)
			certFiles++
			certs.Reset()
		}
	}
	rl := func(d dyadic) string { return fmt.Sprintf("(%d / %d)", d.num, d.den) }
	maxcert := 60
	if g.tier == "thorough" {
		maxcert = 2000
	}

	for i := 0; i < g.n; i++ {
		kind := 6
		if k := r.Intn(20); k < 18 {
			kind = k % 6
		}
		var m models.Model
		var name string
		params := []dyadic{}
		pi := []dyadic{{1, 4}, {1, 4}, {1, 4}, {1, 4}}
		pif := func() []float64 {
			o := make([]float64, len(pi))
			for k, x := range pi {
				o[k] = x.f()
			}
			return o
		}
		var e error
		switch kind {
		case 0:
			name = "JC"
			m = dna.NewJCModel()
		case 1:
			name = "K2P"
			k := kappas[r.Intn(len(kappas))]
			params = []dyadic{k}
			mm := dna.NewK2PModel()
			mm.InitModel(k.f())
			m = mm
		case 2:
			name = "F81"
			pi = randSimplex(r, 4, 32)
			mm := dna.NewF81Model()
			p := pif()
			e = mm.InitModel(p[0], p[1], p[2], p[3])
			m = mm
		case 3:
			name = "F84"
			pi = randSimplex(r, 4, 32)
			k := kappas[r.Intn(len(kappas))]
			params = []dyadic{k}
			mm := dna.NewF84Model()
			p := pif()
			mm.InitModel(k.f(), p[0], p[1], p[2], p[3])
			m = mm
		case 4:
			name = "TN93"
			pi = randSimplex(r, 4, 32)
			k1, k2 := kappas[r.Intn(len(kappas))], kappas[r.Intn(len(kappas))]
			if r.Intn(5) == 0 { // repeated eigen value (F81-like)
				k1, k2 = dyadic{1, 1}, dyadic{1, 1}
			}
			params = []dyadic{k1, k2}
			mm := dna.NewTN93Model()
			p := pif()
			e = mm.InitModel(k1.f(), k2.f(), p[0], p[1], p[2], p[3])
			m = mm
		case 5:
			name = "GTR"
			pi = randSimplex(r, 4, 32)
			rates := make([]dyadic, 6)
			for k := range rates {
				rates[k] = dyadic{1 + r.Intn(16), 4}
			}
			if r.Intn(6) == 0 { // equal rates: repeated eigen value
				for k := range rates {
					rates[k] = rates[0]
				}
			}
			params = rates
			mm := dna.NewGTRModel()
			p := pif()
			e = mm.InitModel(rates[0].f(), rates[1].f(), rates[2].f(), rates[3].f(), rates[4].f(), rates[5].f(), p[0], p[1], p[2], p[3])
			m = mm
		default:
			pmodel := r.Intn(7)
			name = fmt.Sprintf("protein-%d", pmodel)
			mm, e2 := protein.NewProtModel(pmodel, false, 1.0)
			if e2 != nil {
				continue
			}
			if r.Intn(3) == 0 {
				// the model object was initialised before (other frequencies or its own): InitModel starts afresh
				if r.Intn(2) == 0 {
					pi = randSimplex(r, 20, 256)
					mm.InitModel(pif())
				} else {
					mm.InitModel(nil)
				}
			}
			if r.Intn(2) == 0 {
				pi = randSimplex(r, 20, 256)
				e = mm.InitModel(pif())
			} else {
				e = mm.InitModel(nil)
				// the model's own frequencies are not dyadic: given as exact values of the floats
				pi = nil
				piq := make([]string, 20)
				for k := 0; k < 20; k++ {
					n, ex := floatDyadic(mm.Pi(k))
					if ex >= 0 {
						piq[k] = fmt.Sprintf("(%s # 1)%%Q", n.String())
					} else {
						piq[k] = fmt.Sprintf("(%s # %s)%%Q", n.String(), pow2str(-ex))
					}
				}
				name += "-modelfreqs"
				params = nil
				defer func() {}()
				// handled below through piTerm
				_ = piq
				piTermOverride = coqList(piq)
			}
			m = mm
		}
		if e != nil {
			stats[name+":initerr"]++
			piTermOverride = ""
			continue
		}
		s, t := times[r.Intn(len(times))], times[r.Intn(len(times))]
		st := dyadic{s.num*t.den + t.num*s.den, s.den * t.den}
		mat := func(l float64) string {
			p, e := models.NewPij(m, l)
			if e != nil {
				return "[]"
			}
			ns := m.NState()
			rows := []string{}
			for a := 0; a < ns; a++ {
				it := []string{}
				for b := 0; b < ns; b++ {
					it = append(it, flTerm(p.Pij(a, b)))
				}
				rows = append(rows, coqList(it))
			}
			return coqList(rows)
		}
		qlist := func(l []dyadic) string {
			it := []string{}
			for _, x := range l {
				it = append(it, x.coq())
			}
			return coqList(it)
		}
		piTerm := qlist(pi)
		if piTermOverride != "" {
			piTerm = piTermOverride
			piTermOverride = ""
		}
		val, left, right, eerr := m.Eigens()
		if eerr != nil {
			stats[name+":eigenerr"]++
			continue
		}
		ns := m.NState()
		dense := func(at func(i, j int) float64) string {
			rows := []string{}
			for a := 0; a < ns; a++ {
				it := []string{}
				for b := 0; b < ns; b++ {
					it = append(it, flTerm(at(a, b)))
				}
				rows = append(rows, coqList(it))
			}
			return coqList(rows)
		}
		vals := []string{}
		for _, x := range val {
			vals = append(vals, flTerm(x))
		}
		term := fmt.Sprintf("mk %d %s %s %s %s %s %s %s %s %s %s %s %s %s %s", kind, coqStr(name), qlist(params), piTerm, s.coq(), t.coq(),
			mat(0), mat(s.f()), mat(t.f()), mat(st.f()), mat(100), mat(1.0/1048576.0),
			coqList(vals), dense(left.At), dense(right.At))
		w.add(term, map[string]interface{}{"op": "Pij:" + name, "model": name, "params": fmt.Sprint(params), "pi": fmt.Sprint(pi), "s": s.f(), "t": t.f()})
		stats[name]++
		// certificates for the closed forms
		if kind >= 2 && kind <= 5 && ncert < maxcert && i%2 == 0 {
			p, _ := models.NewPij(m, s.f())
			a, b := r.Intn(4), r.Intn(4)
			v := p.Pij(a, b)
			rv := []string{}
			for _, x := range val {
				rv = append(rv, realLit(x))
			}
			rmat := func(at func(i, j int) float64) string {
				rows := []string{}
				for x := 0; x < 4; x++ {
					it := []string{}
					for y := 0; y < 4; y++ {
						it = append(it, realLit(at(x, y)))
					}
					rows = append(rows, coqList(it))
				}
				return coqList(rows)
			}
			fmt.Fprintf(&certs, "(* CERT %d *)\nLemma cert_%d : cert_eig %s %s %s %d %d %s %s (1/1000000000).\nProof. cert_markov. Qed.\n",
				ncert, ncert, coqList(rv), rmat(left.At), rmat(right.At), a, b, rl(s), realLit(v))
			certMeta = append(certMeta, map[string]interface{}{"cert": ncert, "case_idx": w.n() - 1, "model": name, "i": a, "j": b, "l": s.f(), "go_value": v, "form": "eigen"})
			ncert++
			if ncert%10 == 0 {
				flush()
			}
		}
		if (kind == 0 || kind == 1) && ncert < maxcert {
			p, _ := models.NewPij(m, s.f())
			a, b := r.Intn(4), r.Intn(4)
			v := p.Pij(a, b)
			if kind == 0 {
				fmt.Fprintf(&certs, "(* CERT %d *)\nLemma cert_%d : cert_jc %d %d %s %s (1/1000000000).\nProof. cert_markov. Qed.\n", ncert, ncert, a, b, rl(s), realLit(v))
			} else {
				fmt.Fprintf(&certs, "(* CERT %d *)\nLemma cert_%d : cert_k2p %s %d %d %s %s (1/1000000000).\nProof. cert_markov. Qed.\n", ncert, ncert, rl(params[0]), a, b, rl(s), realLit(v))
			}
			certMeta = append(certMeta, map[string]interface{}{"cert": ncert, "case_idx": w.n() - 1, "model": name, "i": a, "j": b, "l": s.f(), "go_value": v})
			ncert++
			if ncert%10 == 0 {
				flush()
			}
		}
	}
	flush()
	var cm bytes.Buffer
	for _, m := range certMeta {
		b, _ := jsonMarshal(m)
		cm.Write(b)
		cm.WriteByte('\n')
	}
	os.WriteFile(g.out+"_certs.jsonl", cm.Bytes(), 0644)
	stats["certificates"] = ncert
	if g.only >= 0 {
		w.terms = w.terms[g.only : g.only+1]
		w.meta = w.meta[g.only : g.only+1]
	}
	if err := w.flush(g.out, "C18", g.per); err != nil {
		return err
	}
	writeStats(g.out, stats)
	return nil
}

var piTermOverride string

func pow2str(k int) string {
	s := "1"
	// decimal string of 2^k
	digits := []int{1}
	for i := 0; i < k; i++ {
		carry := 0
		for j := range digits {
			v := digits[j]*2 + carry
			digits[j] = v % 10
			carry = v / 10
		}
		if carry > 0 {
			digits = append(digits, carry)
		}
	}
	b := make([]byte, len(digits))
	for i := range digits {
		b[len(digits)-1-i] = byte('0' + digits[i])
	}
	s = string(b)
	return s
}
