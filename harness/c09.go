package main

// C09: pairwise local alignment.

import (
	"fmt"
	"math"
	"math/rand"
	"os"
	"os/exec"
	"path/filepath"
	"strings"

	"github.com/evolbioinfo/goalign/align"
)

func init() { register("c09", c09) }

func c09(args []string) error {
	g, err := parseGenFlags("c09", args)
	if err != nil {
		return err
	}
	r := rand.New(rand.NewSource(g.seed))
	w := newCaseWriter("C09")
	stats := map[string]int{}

	type sch struct {
		usemat              bool
		match, mis, op, ext float64
	}
	// scale: 2 for dyadic schemes, 20 for schemes with one decimal; warm: the aligner first serves another scheme
	// (higher scores) and is then reconfigured with SetScore / SetGap*: the second Alignment() is the one recorded
	scaleOf := func(sc sch) int {
		for _, v := range []float64{sc.match, sc.mis, sc.op, sc.ext} {
			if v*2 != math.Trunc(v*2) {
				return 20
			}
		}
		return 2
	}
	warmNext := false
	one := func(s1, s2 string, sc sch, atg bool, tag string) {
		warm := warmNext && !atg
		warmNext = false
		// which part of the scheme differs between the warm run and the recorded one: 0 = everything (all setters
		// called again), 1 = the gap extension only, 2 = the gap opening only, 3 = the match score only - the
		// second configuration then calls that one setter alone
		warmKind := 0
		if warm {
			warmKind = r.Intn(4)
			if sc.usemat && (warmKind == 0 || warmKind == 3) {
				warmKind = 1 + r.Intn(2)
			}
		}
		scale := scaleOf(sc)
		q1 := align.NewSequence("s1", []uint8(s1), "")
		q2 := align.NewSequence("s2", []uint8(s2), "")
		algo := align.ALIGN_ALGO_SW
		if atg {
			algo = align.ALIGN_ALGO_ATG
		}
		var score float64
		var r1, r2 string
		var st1, st2, en1, en2, nm, nmm, ng, ln int
		class, _ := guarded(10e9, func() error {
			pw := align.NewPwAligner(q1, q2, algo)
			if warm && warmKind == 0 {
				if r.Intn(2) == 0 {
					pw.SetScore(sc.match+3, sc.mis)
				}
				pw.SetGapOpenScore(-1)
				pw.SetGapExtendScore(-0.5)
				if _, e := pw.Alignment(); e != nil {
					return e
				}
			}
			if warm && warmKind != 0 {
				wm, wo, we := sc.match, sc.op, sc.ext
				switch warmKind {
				case 1:
					we = sc.ext / 2
					if r.Intn(2) == 0 {
						we = sc.ext - 1
					}
				case 2:
					wo = sc.op - 1
				case 3:
					wm = sc.match + 3
				}
				if !sc.usemat {
					pw.SetScore(wm, sc.mis)
				}
				pw.SetGapOpenScore(wo)
				pw.SetGapExtendScore(we)
				if _, e := pw.Alignment(); e != nil {
					return e
				}
				switch warmKind {
				case 1:
					pw.SetGapExtendScore(sc.ext)
				case 2:
					pw.SetGapOpenScore(sc.op)
				case 3:
					pw.SetScore(sc.match, sc.mis)
				}
			} else {
				if !sc.usemat {
					pw.SetScore(sc.match, sc.mis)
				}
				pw.SetGapOpenScore(sc.op)
				pw.SetGapExtendScore(sc.ext)
			}
			_, e := pw.Alignment()
			if e != nil {
				return e
			}
			score = pw.MaxScore()
			r1, r2 = string(pw.Seq1Ali()), string(pw.Seq2Ali())
			st1, st2 = pw.AlignStarts()
			en1, en2 = pw.AlignEnds()
			nm, nmm, ng, ln = pw.NbMatches(), pw.NbMisMatches(), pw.NbGaps(), pw.Length()
			// asking again must describe the same alignment (rows, score, positions, counters)
			if !atg {
				if _, e2 := pw.Alignment(); e2 == nil {
					s1b, s2b := pw.AlignStarts()
					if pw.MaxScore() != score || string(pw.Seq1Ali()) != r1 || string(pw.Seq2Ali()) != r2 || s1b != st1 || s2b != st2 ||
						pw.NbMatches() != nm || pw.NbMisMatches() != nmm || pw.NbGaps() != ng || pw.Length() != ln {
						ln = -7 // impossible length: both oracles reject the case
					}
				} else {
					ln = -7
				}
			}
			return nil
		})
		if class != OutOk && class != OutErr { // a panic or a hang is not an error return
			class, ln = OutOk, -7
		}
		// the same request through the command line (goalign sw): score and rows must be those of the library
		// configured as documented (a lone --match or --mismatch selects match/mismatch scoring with the other default)
		cliNote := ""
		if bin := os.Getenv("VERIF_GOALIGN_BIN"); bin != "" && !atg && class == OutOk && r.Intn(10) == 0 &&
			(sc.usemat || sc.match == 1 || sc.mis == -1 || r.Intn(2) == 0) {
			tmpd, e := os.MkdirTemp("", "c09cli")
			if e == nil {
				inf, logf := filepath.Join(tmpd, "in.fa"), filepath.Join(tmpd, "log.txt")
				os.WriteFile(inf, []byte(">s1\n"+s1+"\n>s2\n"+s2+"\n"), 0644)
				args := []string{"sw", "-i", inf, "-l", logf, fmt.Sprintf("--gap-open=%v", sc.op), fmt.Sprintf("--gap-extend=%v", sc.ext)}
				if !sc.usemat {
					switch {
					case sc.mis == -1 && r.Intn(2) == 0:
						args = append(args, fmt.Sprintf("--match=%v", sc.match))
					case sc.match == 1 && r.Intn(2) == 0:
						args = append(args, fmt.Sprintf("--mismatch=%v", sc.mis))
					default:
						args = append(args, fmt.Sprintf("--match=%v", sc.match), fmt.Sprintf("--mismatch=%v", sc.mis))
					}
				}
				cmd := exec.Command(bin, args...)
				cmd.Stdout = nil
				if cmd.Run() == nil {
					lb, _ := os.ReadFile(logf)
					want := fmt.Sprintf("Align Score: %.2f\n", score)
					if !strings.Contains(string(lb), want) {
						cliNote = "goalign " + strings.Join(args, " ") + " logged another score than the library: " + want
						ln = -7
					}
				} else {
					cliNote = "goalign " + strings.Join(args, " ") + " failed"
					ln = -7
				}
				os.RemoveAll(tmpd)
			}
		}
		z2 := func(f float64) string {
			v := math.Round(f * float64(scale))
			if math.Abs(v-f*float64(scale)) > 1e-6 {
				v = -999999 // not a multiple of 1/scale: no alignment scores that
			}
			return coqZ(int(v))
		}
		term := fmt.Sprintf("mk %s %s %s %s %s %s %s %s %s %s %s %s %s %s %s %s %s %s %s %s %s %s %s",
			coqZ(scale), coqBool(atg), coqBool(sc.usemat), z2(sc.match), z2(sc.mis), z2(sc.op), z2(sc.ext), coqStr(s1), coqStr(s2),
			coqBool(class != OutOk), z2(score), coqStr(r1), coqStr(r2), coqZ(st1), coqZ(st2), coqZ(en1), coqZ(en2),
			coqZ(nm), coqZ(nmm), coqZ(ng), coqZ(ln), coqStr(q1.Sequence()), coqStr(q2.Sequence()))
		w.add(term, map[string]interface{}{"op": "Alignment", "atg": atg, "s1": s1, "s2": s2, "scheme": fmt.Sprintf("%+v", sc), "class": class,
			"score": score, "row1": r1, "row2": r2, "starts": []int{st1, st2}, "ends": []int{en1, en2}, "counts": []int{nm, nmm, ng, ln}, "tag": tag, "cli": cliNote, "scale": scale, "warm": warm})
		stats[tag+":"+class]++
	}

	schemes := []sch{
		{true, 0, 0, -10, -0.5}, {true, 0, 0, -2, -1}, {true, 0, 0, -1, -0.5},
		{false, 1, -1, -10, -0.5}, {false, 1, -1, -2, -1}, {false, 2, -1, -1, -0.5}, {false, 1, -2, -1, -1}, {false, 2, -2, -2, -0.5},
		// opening much dearer than extending, a match dearer than an opening
		{true, 0, 0, -3, -0.5}, {true, 0, 0, -4, -1}, {false, 5, -4, -3, -0.5}, {false, 3, -1, -2.5, -0.5}, {false, 4, -1, -3, -1},
	}

	decimal := []sch{{false, 2, -2, -1.1, -0.3}, {false, 4, -2, -0.8, -0.3}, {false, 1, -1, -1.7, -0.1}, {false, 3, -1.5, -0.9, -0.2},
		{true, 0, 0, -10.1, -0.7}, {true, 0, 0, -1.3, -0.1}, {false, 2, -1, -0.6, -0.6}}

	// exhaustive: all pairs up to a small length over a reduced alphabet
	maxlen := 3
	if g.tier == "thorough" {
		maxlen = 4
	}
	var words []string
	var gen func(cur string, n int)
	gen = func(cur string, n int) {
		if len(cur) == n {
			words = append(words, cur)
			return
		}
		for _, c := range "ACG" {
			gen(cur+string(c), n)
		}
	}
	for n := 1; n <= maxlen; n++ {
		gen("", n)
	}
	cnt := 0
	for _, a := range words {
		for _, b := range words {
			cnt++
			if g.tier != "thorough" && cnt%3 != int(g.seed%3) {
				continue
			}
			one(a, b, schemes[3+cnt%10], false, "exhaustive")
		}
	}

	randSeqOver := func(alpha string, l int) string {
		return randSeq(r, l, func(r *rand.Rand) byte { return alpha[r.Intn(len(alpha))] })
	}
	for i := 0; i < g.n; i++ {
		sc := schemes[r.Intn(len(schemes))]
		prot := r.Intn(4) == 0
		alpha := "ACGT"
		if r.Intn(5) == 0 {
			alpha = "ACGTNRYacgt"
		} else if r.Intn(4) == 0 {
			alpha = "ACGTACGTACGTRYSWKMBDHVNdvbh" // every IUPAC code: the whole built-in matrix is exercised
		}
		if prot {
			alpha = "ARNDCQEGHILKMFPSTWYV"
			if r.Intn(3) == 0 {
				alpha = "WWWCFYH" // high BLOSUM62 scores: long gap extensions pay off
			}
		}
		l1, l2 := 1+r.Intn(12), 1+r.Intn(12)
		if r.Intn(4) == 0 {
			// longer pairs: rare tie patterns of the gap recurrences need room
			l1, l2 = 12+r.Intn(30), 12+r.Intn(30)
		}
		s1 := randSeqOver(alpha, l1)
		s2 := randSeqOver(alpha, l2)
		// related sequences: s2 is a mutated copy of a window of s1 with an indel
		if r.Intn(2) == 0 && l1 >= 4 {
			a := r.Intn(l1 - 2)
			b := a + 2 + r.Intn(l1-a-2)
			m := []byte(s1[a:b])
			if len(m) > 2 && r.Intn(2) == 0 {
				k := 1 + r.Intn(len(m)-2)
				if r.Intn(2) == 0 {
					m = append(m[:k], m[k+1:]...)
				} else {
					ins := randSeqOver(alpha, 1+r.Intn(3))
					m = append(m[:k], append([]byte(ins), m[k:]...)...)
				}
			}
			s2 = randSeqOver(alpha, r.Intn(3)) + string(m) + randSeqOver(alpha, r.Intn(3))
		}
		if r.Intn(3) == 0 {
			// a border of the matrix carries the alignment: one to three residues against a long sequence, cheap
			// extensions, strong matches (a gap running along the first row / column must survive a better match)
			// (only a matrix with unequal match scores can make a weaker match overwrite a running gap)
			sc = []sch{{true, 0, 0, -3, -0.5}, {true, 0, 0, -4, -1}, {true, 0, 0, -2.5, -0.5}, {true, 0, 0, -2, -1}, {true, 0, 0, -5, -0.5}}[r.Intn(5)]
			alpha = []string{"WWWCFYH", "WFYH", "ILVMFY", "ACGTRYKMN", "FYWHDEKR"}[r.Intn(5)]
			s1 = randSeqOver(alpha, 2+r.Intn(2))
			s2 = randSeqOver(alpha, 6+r.Intn(10))
			if r.Intn(2) == 0 {
				s1, s2 = s2, s1
			}
		}
		if r.Intn(10) == 0 {
			// the same, constructed: X.. against ..X (gap) Y' (gap) Z.. where Y' scores a little against X: on the border the
			// weak match Y' overwrites the running gap, which remains the better way on to Z
			pairs := []string{"FY", "YF", "WY", "YW", "YH", "HY", "IV", "VI", "IL", "LI", "LM", "ML", "FW", "WF"}
			pq := pairs[r.Intn(len(pairs))]
			z := string("WCHP"[r.Intn(4)])
			fill := func(n int) string { return randSeqOver("GDKN", n) }
			s1 = string(pq[0]) + z
			s2 = fill(r.Intn(2)) + string(pq[0]) + fill(1+r.Intn(2)) + string(pq[1]) + fill(1+r.Intn(3)) + z + fill(r.Intn(2))
			if r.Intn(3) == 0 {
				s1 = s1 + string("WCHP"[r.Intn(4)])
			}
			sc = []sch{{true, 0, 0, -3, -0.5}, {true, 0, 0, -2.5, -0.5}, {true, 0, 0, -4, -0.5}, {true, 0, 0, -2, -0.5}}[r.Intn(4)]
			if r.Intn(2) == 0 {
				s1, s2 = s2, s1
			}
		}
		if r.Intn(25) == 0 {
			s2 = s2 + "!" // outside every alphabet: error expected
		}
		if r.Intn(60) == 0 { // an empty sequence: an error, not a panic
			if r.Intn(2) == 0 {
				s1 = ""
			} else {
				s2 = ""
			}
		}
		tag := "random"
		if r.Intn(6) == 0 { // penalties that are not exactly representable in binary
			sc = decimal[r.Intn(len(decimal))]
			tag = "decimal"
			if r.Intn(2) == 0 {
				s1, s2 = randSeqOver("AC", 5+r.Intn(8)), randSeqOver("AC", 5+r.Intn(10))
			}
		}
		warmNext = r.Intn(4) == 0
		one(s1, s2, sc, r.Intn(6) == 0, tag)
	}
	if g.only >= 0 {
		w.terms = w.terms[g.only : g.only+1]
		w.meta = w.meta[g.only : g.only+1]
	}
	if err := w.flush(g.out, "C09", g.per); err != nil {
		return err
	}
	writeStats(g.out, stats)
	return nil
}
