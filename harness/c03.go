package main

// C03: parsers are total.  Every parser call runs in a child process (this same
// binary in "c03child" mode) under a watchdog, so that a hang, a panic or an
// os.Exit in the library is observed as an outcome instead of killing the run.

import (
	"bufio"
	"bytes"
	"encoding/hex"
	"encoding/json"
	"fmt"
	"io"
	"math/rand"
	"os"
	"os/exec"
	"regexp"
	"strconv"
	"strings"
	"time"

	"github.com/evolbioinfo/goalign/align"
	"github.com/evolbioinfo/goalign/io/clustal"
	"github.com/evolbioinfo/goalign/io/fasta"
	"github.com/evolbioinfo/goalign/io/nexus"
	"github.com/evolbioinfo/goalign/io/partition"
	"github.com/evolbioinfo/goalign/io/phylip"
	"github.com/evolbioinfo/goalign/io/stockholm"
)

func init() {
	register("c03", c03)
	register("c03child", c03child)
}

type parseReq struct {
	Format string `json:"format"` // fasta, fasta-unalign, phylip, phylip-strict, phylip-multi, nexus, clustal, stockholm, partition
	Policy int    `json:"policy"`
	Alpha  int    `json:"alpha"` // align.BOTH = auto
	PLen   int    `json:"plen"`  // partition: alignment length
	Input  string `json:"input"` // hex
}

type parseRes struct {
	Class string     `json:"class"` // Ok, Err, EOS, Panic, Diverge, Exit
	Msg   string     `json:"msg"`
	Names []string   `json:"names"`
	Seqs  []string   `json:"seqs"`
	Len   int        `json:"len"`
	Alpha int        `json:"alphabet"`
	Multi [][]string `json:"multi"` // phylip-multi: per alignment "n x L"
	Parts []int      `json:"parts"` // partition: partition index of every site
	NPart int        `json:"npart"`
}

func doParse(q parseReq) (res parseRes) {
	in, _ := hex.DecodeString(q.Input)
	res.Names, res.Seqs, res.Parts = []string{}, []string{}, []int{}
	defer func() {
		if r := recover(); r != nil {
			res.Class, res.Msg = OutPanic, fmt.Sprint(r)
		}
	}()
	fill := func(sb align.SeqBag, al align.Alignment, err error) {
		if err != nil {
			res.Class, res.Msg = OutErr, err.Error()
			return
		}
		if sb == nil {
			res.Class = "EOS"
			return
		}
		res.Class = OutOk
		res.Names, res.Seqs = alignContent(sb)
		res.Alpha = sb.Alphabet()
		res.Len = -2
		if al != nil {
			res.Len = al.Length()
		}
	}
	switch q.Format {
	case "fasta":
		al, err := fasta.NewParser(bytes.NewReader(in)).IgnoreIdentical(q.Policy).Alphabet(q.Alpha).Parse()
		fill(al, al, err)
	case "fasta-unalign":
		sb, err := fasta.NewParser(bytes.NewReader(in)).IgnoreIdentical(q.Policy).Alphabet(q.Alpha).ParseUnalign()
		fill(sb, nil, err)
	case "phylip", "phylip-strict":
		al, err := phylip.NewParser(bytes.NewReader(in), q.Format == "phylip-strict").IgnoreIdentical(q.Policy).Alphabet(q.Alpha).Parse()
		if al == nil {
			fill(nil, nil, err)
		} else {
			fill(al, al, err)
		}
	case "phylip-multi":
		ch := align.AlignChannel{Achan: make(chan align.Alignment, 50)}
		go phylip.NewParser(bytes.NewReader(in), false).ParseMultiple(&ch)
		res.Multi = [][]string{}
		for al := range ch.Achan {
			n, s := alignContent(al)
			res.Multi = append(res.Multi, append([]string{fmt.Sprint(al.Length())}, append(n, s...)...))
			res.Names, res.Seqs, res.Len = n, s, al.Length()
		}
		if ch.Err != nil {
			res.Class, res.Msg = OutErr, ch.Err.Error()
		} else if len(res.Multi) == 0 {
			res.Class = "EOS"
		} else {
			res.Class = OutOk
		}
	case "nexus":
		al, err := nexus.NewParser(bytes.NewReader(in)).IgnoreIdentical(q.Policy).Alphabet(q.Alpha).Parse()
		fill(al, al, err)
	case "clustal":
		al, err := clustal.NewParser(bytes.NewReader(in)).IgnoreIdentical(q.Policy).Alphabet(q.Alpha).Parse()
		if err != nil {
			fill(nil, nil, err)
		} else {
			fill(al, al, err)
		}
	case "stockholm":
		al, err := stockholm.NewParser(bytes.NewReader(in)).IgnoreIdentical(q.Policy).Alphabet(q.Alpha).Parse()
		fill(al, al, err)
	case "partition":
		ps, err := partition.NewParser(bytes.NewReader(in)).Parse(q.PLen)
		if err != nil {
			res.Class, res.Msg = OutErr, err.Error()
		} else {
			res.Class = OutOk
			res.NPart = ps.NPartitions()
			res.Len = ps.AliLength()
			for i := 0; i < ps.AliLength(); i++ {
				res.Parts = append(res.Parts, ps.Partition(i))
			}
		}
	}
	return
}

func c03child(args []string) error {
	rd := bufio.NewReaderSize(os.Stdin, 1<<20)
	out := bufio.NewWriter(os.Stdout)
	for {
		line, err := rd.ReadBytes('\n')
		if len(line) > 1 {
			var q parseReq
			if e := json.Unmarshal(line, &q); e == nil {
				res := doParse(q)
				b, _ := json.Marshal(res)
				out.Write(b)
				out.WriteByte('\n')
				out.Flush()
			}
		}
		if err != nil {
			return nil
		}
	}
}

// runGuardedBatch runs the requests in child processes; per-request timeout.
func runGuardedBatch(reqs []parseReq, timeout time.Duration) []parseRes {
	results := make([]parseRes, len(reqs))
	self := os.Getenv("VERIF_HARNESS_BIN")
	if self == "" {
		self, _ = os.Executable()
	}
	i := 0
	for i < len(reqs) {
		cmd := exec.Command(self, "c03child")
		stdin, _ := cmd.StdinPipe()
		stdout, _ := cmd.StdoutPipe()
		var stderr bytes.Buffer
		cmd.Stderr = &stderr
		if err := cmd.Start(); err != nil {
			panic(err)
		}
		rd := bufio.NewReaderSize(stdout, 1<<20)
		lines := make(chan []byte)
		go func() {
			for {
				l, err := rd.ReadBytes('\n')
				if len(l) > 1 {
					lines <- l
				}
				if err != nil {
					close(lines)
					return
				}
			}
		}()
		alive := true
		for alive && i < len(reqs) {
			b, _ := json.Marshal(reqs[i])
			if _, err := stdin.Write(append(b, '\n')); err != nil {
				alive = false
				break
			}
			select {
			case l, ok := <-lines:
				if !ok {
					// child died on this request
					cmd.Wait()
					cl := OutPanic
					if strings.Contains(stderr.String(), "[Error] in") || (cmd.ProcessState != nil && cmd.ProcessState.ExitCode() == 1 && !strings.Contains(stderr.String(), "goroutine")) {
						cl = OutExit
					}
					msg := stderr.String()
					if len(msg) > 300 {
						msg = msg[:300]
					}
					results[i] = parseRes{Class: cl, Msg: msg, Names: []string{}, Seqs: []string{}, Parts: []int{}}
					i++
					alive = false
				} else {
					json.Unmarshal(l, &results[i])
					i++
				}
			case <-time.After(timeout):
				cmd.Process.Kill()
				cmd.Wait()
				results[i] = parseRes{Class: OutDiverge, Msg: "watchdog", Names: []string{}, Seqs: []string{}, Parts: []int{}}
				i++
				alive = false
			}
		}
		if alive {
			stdin.Close()
			io.Copy(io.Discard, rd)
			cmd.Wait()
		}
	}
	return results
}

// ---- input generation -------------------------------------------------------------------------

func validFile(r *rand.Rand, format string) []byte {
	nseq := 1 + r.Intn(3)
	L := 1 + r.Intn(14)
	if r.Intn(4) == 0 {
		L = 55 + r.Intn(30) // straddles the writers' line widths
	}
	names := distinctNames(r, nseq)
	for i := range names {
		names[i] = strings.ReplaceAll(names[i], "-", "_")
	}
	seqs := make([]string, nseq)
	prot := r.Intn(4) == 0
	for k := range seqs {
		if prot {
			seqs[k] = randSeq(r, L, func(r *rand.Rand) byte { return "ARNDCQEGHILKMFPSTWYV-"[r.Intn(21)] })
		} else {
			seqs[k] = randSeq(r, L, func(r *rand.Rand) byte { return "ACGTacgt-N"[r.Intn(10)] })
		}
	}
	a, err := mkAlign(align.UNKNOWN, names, seqs)
	if err != nil {
		return []byte(">a\nAC\n")
	}
	a.AutoAlphabet()
	switch format {
	case "fasta", "fasta-unalign":
		return []byte(fasta.WriteAlignment(a))
	case "phylip":
		return []byte(phylip.WriteAlignment(a, false, r.Intn(2) == 0, r.Intn(2) == 0))
	case "phylip-strict":
		return []byte(phylip.WriteAlignment(a, true, r.Intn(2) == 0, r.Intn(2) == 0))
	case "phylip-multi":
		s := phylip.WriteAlignment(a, false, false, false)
		if r.Intn(2) == 0 {
			s += phylip.WriteAlignment(a, false, true, false)
		}
		return []byte(s)
	case "nexus":
		return []byte(nexus.WriteAlignment(a))
	case "clustal":
		return []byte(clustal.WriteAlignment(a))
	case "stockholm":
		return []byte(stockholm.WriteAlignment(a))
	case "partition":
		return []byte(fmt.Sprintf("DNA,p1=1-%d/3,2-%d/3\nDNA,p2=3-%d/3\n", L, L, L))
	}
	return nil
}

var nexusDimRe = regexp.MustCompile(`(?i)(^|[\s;])dimensions\s[^;]*;`)
var nexusNtaxRe = regexp.MustCompile(`(?i)\sntax\s*=\s*([0-9]+)[\s;]`)
var nexusNcharRe = regexp.MustCompile(`(?i)\snchar\s*=\s*([0-9]+)[\s;]`)

var c03Splices = []string{"\n", "\r", "\r\n", " ", "\t", "[", "]", ";", "#", ">", "=", "//", "0", "9", "-1", "99999999999999999999", "A", "-", ".", ",", "/",
	"#NEXUS", "BEGIN", "MATRIX", "END;", "CLUSTAL", "# STOCKHOLM 1.0", "#=GF x", "[abc", "DIMENSIONS", "\x00", "  \n", ">\n", "> \n",
	"9223372036854775807", "/9223372036854775806", "TITLE x;", "OPTIONS GAPMODE=MISSING;", "MATRIX\n;", "NTAX=0", "NCHAR=0", "\n;\nEND;\n"}

func mutateFile(r *rand.Rand, f []byte) []byte {
	b := append([]byte{}, f...)
	switch r.Intn(8) {
	case 0: // truncation
		if len(b) > 0 {
			b = b[:r.Intn(len(b))]
		}
	case 1: // single byte mutation
		if len(b) > 0 {
			b[r.Intn(len(b))] = "\n\r []>;#=/09A-.\t,"[r.Intn(17)]
		}
	case 2: // line deletion
		ls := bytes.SplitAfter(b, []byte("\n"))
		if len(ls) > 1 {
			k := r.Intn(len(ls))
			ls = append(ls[:k], ls[k+1:]...)
			b = bytes.Join(ls, nil)
		}
	case 3: // line duplication
		ls := bytes.SplitAfter(b, []byte("\n"))
		k := r.Intn(len(ls))
		ls = append(ls[:k+1], ls[k:]...)
		b = bytes.Join(ls, nil)
	case 4, 5: // token splice
		p := 0
		if len(b) > 0 {
			p = r.Intn(len(b) + 1)
		}
		s := c03Splices[r.Intn(len(c03Splices))]
		b = append(b[:p], append([]byte(s), b[p:]...)...)
	case 6: // header lie: change the first number
		for i := 0; i < len(b); i++ {
			if b[i] >= '0' && b[i] <= '9' {
				b[i] = "0123456789"[r.Intn(10)]
				break
			}
		}
	case 7: // unchanged (valid)
	}
	return b
}

func c03(args []string) error {
	g, err := parseGenFlags("c03", args)
	if err != nil {
		return err
	}
	r := rand.New(rand.NewSource(g.seed))
	w := newCaseWriter("C03")
	stats := map[string]int{}
	formats := []string{"fasta", "fasta-unalign", "phylip", "phylip-strict", "phylip-multi", "nexus", "clustal", "stockholm", "partition"}
	reqs := []parseReq{}
	// minimised corpus first: inputs that used to hang / crash / be accepted
	corpus := []struct{ f, in string }{
		{"nexus", "#NEXUS\n[abc"}, {"stockholm", "# STOCKHOLM 1.0\n#=GF x"}, {"stockholm", "# STOCKHOLM 1.0\n//"},
		{"fasta", ">a\n"}, {"fasta", "> \n"}, {"fasta", ""}, {"phylip", "1 4\r"}, {"phylip", "9999999999 4\n"}, {"phylip", "2 -4\na AC\n"},
		{"clustal", "CLUSTAL W\n\na AC\n\na AC\nb GT\n"}, {"clustal", "CLUSTAL\r"}, {"phylip-strict", "1 2\n\xc3\xa9\xc3\xa9\xc3\xa9\xc3\xa9\xc3\xa9 AC\n"},
		{"partition", "M,p=0-3\n"}, {"partition", "M,p=1-99\n"}, {"nexus", "#NEXUS\nBEGIN DATA;\nDIMENSIONS NTAX=1 NCHAR=2;\nMATRIX\na AC"},
		// a stride that overflows the site index; rows with a name and no character; blocks without rows
		{"partition", "M,p=2-4/9223372036854775807\n"}, {"partition", "M,p=1-4/9223372036854775806,2\n"},
		{"nexus", "#NEXUS\nBEGIN DATA;\nDIMENSIONS NTAX=2 NCHAR=0;\nFORMAT DATATYPE=dna;\nMATRIX\na \nb \n;\nEND;\n"},
		{"nexus", "#NEXUS\nBEGIN DATA;\nMATRIX\na\nb\n;\nEND;\n"}, {"nexus", "#NEXUS\nBEGIN DATA;\nMATRIX\n;\nEND;\n"},
		{"nexus", "#NEXUS\nBEGIN DATA;\nEND;\n"}, {"nexus", "#NEXUS\nBEGIN DATA;\nDIMENSIONS NTAX=0 NCHAR=0;\nMATRIX\n;\nEND;\n"},
		{"nexus", "#NEXUS\nBEGIN DATA;\n  TITLE x"}, {"nexus", "#NEXUS\nBEGIN TAXA;\n  OPTIONS GAPMODE=MISSING"},
		{"nexus", "#NEXUS\nBEGIN DATA;\nDIMENSIONS NTAX=2 NCHAR=4;\nFORMAT DATATYPE=dna MISSING=\xc3\xa9 GAP=-;\nMATRIX\na AC\xc3\xa9\nb GT\xc3\xa9\n;\nEND;\n"},
		{"nexus", "#NEXUS\nBEGIN DATA;\nDIMENSIONS NTAX=2 NCHAR=4;\nFORMAT DATATYPE=dna GAP=\xc3\xa9;\nMATRIX\na AC\xc3\xa9\nb GT\xc3\xa9\n;\nEND;\n"},
		{"phylip", "2 0\na \nb \n"}, {"phylip", "2 0\na\nb\n"}, {"phylip-strict", "2 0\naaaaaaaaaa\nbbbbbbbbbb\n"},
		{"clustal", "CLUSTAL W\n\na \nb \n"}, {"stockholm", "# STOCKHOLM 1.0\na \nb \n//\n"}, {"stockholm", "# STOCKHOLM 1.0\na\nb\n//\n"},
		// entries whose sequence lines hold blanks only; Clustal blocks with one line more or less than the first
		{"fasta", ">a\n \n"}, {"fasta", ">a\n  \n>b\n \n"}, {"fasta-unalign", ">a\nACGT\n>b\n   \n>c\nAC\n"}, {"fasta-unalign", ">a\n \n"},
		{"fasta", ">a\nAC\n>b\n  \n"}, {"fasta-unalign", ">a\nAC GT\n>b\n \t \n"},
		{"clustal", "CLUSTAL W\n\na AC\nb GT\n  *\n\na AC\nb GT\nb GT\n  *\n"}, {"clustal", "CLUSTAL W\n\na AC\nb GT\n  *\n\na AC\nb GT\nc GT\n  *\n"},
		{"clustal", "CLUSTAL W\n\na AC\nb GT\n  *\n\na AC\n  *\n"}, {"clustal", "CLUSTAL W\n\na AC 2\n  *\n\na AC 4\na AC 4\n"},
	}
	for _, c := range corpus {
		reqs = append(reqs, parseReq{Format: c.f, Policy: 0, Alpha: align.BOTH, PLen: 4, Input: hex.EncodeToString([]byte(c.in))})
	}
	for i := 0; i < g.n; i++ {
		f := formats[r.Intn(len(formats))]
		file := validFile(r, f)
		in := mutateFile(r, file)
		if (f == "fasta" || f == "fasta-unalign") && r.Intn(8) == 0 { // residue lines replaced by blanks
			ls := bytes.SplitAfter(file, []byte("\n"))
			all := r.Intn(2) == 0
			for k := range ls {
				if len(ls[k]) > 1 && ls[k][0] != '>' && (all || r.Intn(3) == 0) {
					ls[k] = []byte(strings.Repeat(" ", 1+r.Intn(3)) + "\n")
				}
			}
			in = bytes.Join(ls, nil)
		}
		if f == "clustal" && r.Intn(2) == 0 { // assembled line by line: every state of the modelled parser
			in = clustalHand(r)
			if r.Intn(6) == 0 {
				in = mutateFile(r, in)
			}
		}
		if r.Intn(5) == 0 {
			in = mutateFile(r, in)
		}
		if r.Intn(40) == 0 { // a few non-ASCII inputs
			p := r.Intn(len(in) + 1)
			in = append(in[:p], append([]byte("\xc3\xa9"), in[p:]...)...)
		}
		q := parseReq{Format: f, Policy: []int{0, 0, 1, 2}[r.Intn(4)], Alpha: []int{align.BOTH, align.BOTH, align.NUCLEOTIDS, align.AMINOACIDS}[r.Intn(4)],
			PLen: 1 + r.Intn(20), Input: hex.EncodeToString(in)}
		reqs = append(reqs, q)
	}
	results := runGuardedBatch(reqs, 3*time.Second)
	for i, q := range reqs {
		res := results[i]
		in, _ := hex.DecodeString(q.Input)
		multi := []string{}
		for _, m := range res.Multi {
			multi = append(multi, coqStrList(m))
		}
		if res.Names == nil {
			res.Names, res.Seqs = []string{}, []string{}
		}
		if q.Format == "nexus" {
			// the counts declared in the file, when the declaration is unambiguous (one NTAX=, one NCHAR=, no comment)
			res.Parts = []int{}
			if !bytes.ContainsAny(in, "[]") && q.Policy == 0 && !bytes.Contains(bytes.ToLower(in), []byte("taxa")) {
				dims := nexusDimRe.FindAll(in, -1)
				var nt, nc [][][]byte
				if len(dims) == 1 && len(regexp.MustCompile(`(?i)dimensions`).FindAll(in, -1)) == 1 {
					nt = nexusNtaxRe.FindAllSubmatch(dims[0], -1)
					nc = nexusNcharRe.FindAllSubmatch(dims[0], -1)
				} else {
					nt, nc = [][][]byte{nil, nil}, [][][]byte{nil, nil} // ambiguous: not judged
				}
				decl := func(m [][][]byte) int {
					if len(m) != 1 {
						return -1
					}
					v, e := strconv.Atoi(string(m[0][1]))
					if e != nil || v > 1000000 {
						return -1
					}
					return v
				}
				if len(nt) <= 1 && len(nc) <= 1 {
					res.Parts = []int{decl(nt), decl(nc)}
				}
			}
		}
		term := fmt.Sprintf("mk %s %s %s %s %s %s %s %s %s %s %s %s", coqStr(q.Format), coqZ(q.Policy), coqZ(q.Alpha), coqZ(q.PLen), coqBytes(in),
			coqStr(res.Class), coqRows(res.Names, res.Seqs), coqZ(res.Len), coqZ(res.Alpha), coqList(multi), coqZList(res.Parts), coqZ(res.NPart))
		w.add(term, map[string]interface{}{"op": "parse:" + q.Format, "format": q.Format, "policy": q.Policy, "alpha": q.Alpha, "plen": q.PLen,
			"input": string(in), "input_hex": q.Input, "class": res.Class, "msg": res.Msg, "names": res.Names, "seqs": res.Seqs, "len": res.Len})
		stats[q.Format+":"+res.Class]++
	}
	if g.only >= 0 {
		w.terms = w.terms[g.only : g.only+1]
		w.meta = w.meta[g.only : g.only+1]
	}
	if err := w.flush(g.out, "C03", g.per); err != nil {
		return err
	}
	writeStats(g.out, stats)
	return nil
}

// clustalHand assembles a Clustal file token by token, each deviation from the writer's layout with a small
// probability: keyword spellings, numeric / keyword names, tabs, CR LF, counts of every spelling or none, numeric
// "sequences", missing or blank conservation lines, blocks of different sizes, names that differ between blocks.
func clustalHand(r *rand.Rand) []byte {
	pick := func(l []string) string { return l[r.Intn(len(l))] }
	rare := func(n int, a, b string) string {
		if r.Intn(n) == 0 {
			return b
		}
		return a
	}
	eol := func() string { return rare(12, "\n", pick([]string{"\r\n", "\r\n", "\r", "\n\n", "\x00"})) }
	var b bytes.Buffer
	b.WriteString(pick([]string{"CLUSTAL W (1.82) multiple sequence alignment", "CLUSTAL", "clustalw", "ClustalW 2", "CLUSTAL W", "CLUSTAL\tW", "CLUSTALX 2.1", "CLUSTAL W 12 -3"}))
	b.WriteString(eol())
	for k := r.Intn(3); k > 0; k-- {
		b.WriteString(rare(6, "", " ") + "\n")
	}
	nseq := 1 + r.Intn(4)
	pool := []string{"a", "s1", "seq_2", "12", "-7", "+3", "CLUSTAL", "clustalw", "x\ty", "99999999999999999999", "9223372036854775808", "9223372036854775807", "b", "c", "é"}
	names := make([]string, nseq)
	for i := range names {
		names[i] = pool[r.Intn(len(pool)-1)]
		if r.Intn(3) > 0 {
			names[i] += fmt.Sprint(i)
		}
	}
	nblocks := 1 + r.Intn(3)
	total := 0
	for bl := 0; bl < nblocks; bl++ {
		w := 1 + r.Intn(6)
		total += w
		n := nseq
		if bl > 0 && r.Intn(5) == 0 {
			n = nseq + r.Intn(3) - 1
		}
		for i := 0; i < n; i++ {
			nm := "z"
			if i < nseq {
				nm = names[i]
			} else if r.Intn(2) == 0 {
				nm = names[nseq-1] // the last line once more
			}
			if bl > 0 && r.Intn(15) == 0 {
				nm = pick(pool)
			}
			sq := randSeq(r, w, func(r *rand.Rand) byte { return "ACGT-acgtN"[r.Intn(10)] })
			sq = rare(25, sq, pick([]string{"123", "CLUSTAL", "-", "+5", "A\tC", "99999999999999999999", sq + "A"}))
			b.WriteString(rare(30, nm, " "+nm))
			b.WriteString(pick([]string{" ", "   ", "      ", "\t", " \t "}))
			b.WriteString(sq)
			switch r.Intn(12) {
			case 0: // no count
			case 1:
				b.WriteString(" ")
			case 2:
				b.WriteString(" " + pick([]string{"+12", "-0", "x", "99999999999999999999", "12 ", "1 2", "0012"}))
			default:
				b.WriteString(pick([]string{" ", "  ", "\t"}) + fmt.Sprint(total))
			}
			b.WriteString(eol())
		}
		switch r.Intn(12) {
		case 0: // no conservation line
		case 1:
			b.WriteString(eol())
		case 2:
			b.WriteString("   " + pick([]string{"", "*", "* : ."})) // no end of line
		default:
			b.WriteString(pick([]string{"    ", "\t", " "}) + pick([]string{"", "*:. ", "***", "12", "CLUSTAL"}) + eol())
		}
		for k := r.Intn(3); k > 0 && r.Intn(3) > 0; k-- {
			b.WriteString("\n")
		}
	}
	return b.Bytes()
}
