package main

// C07: nucleotide distances.

import (
	"bytes"
	"fmt"
	"math"
	"math/big"
	"math/rand"
	"os"

	"github.com/evolbioinfo/goalign/align"
	"github.com/evolbioinfo/goalign/distance/dna"
)

func init() { register("c07", c07) }

func flTerm(f float64) string {
	switch {
	case math.IsNaN(f):
		return "(1, 0, 0)%Z"
	case math.IsInf(f, 1):
		return "(2, 0, 0)%Z"
	case math.IsInf(f, -1):
		return "(3, 0, 0)%Z"
	}
	n, e := floatDyadic(f)
	return fmt.Sprintf("(0, %s, %d)%%Z", n.String(), e)
}

// exact real literal of a finite float
func realLit(f float64) string {
	r := new(big.Rat).SetFloat64(f)
	return fmt.Sprintf("(IZR (%s) / IZR %s)%%R", r.Num().String(), r.Denom().String())
}

var c07Models = []string{"rawdist", "pdist", "jc", "k2p", "f81", "f84", "tn93"}

type c07case struct {
	names, seqs []string
	model       int
	gamma       bool
	alpha       dyadic
	rmgaps      bool
	gapmode     int
	rmamb       bool
	weights     []dyadic
	ranges      *[4]int // nil = the usual half matrix
	useWeights  bool
	class       string
	matrix      [][]float64
	term        string
	warm        []string // when set: the same model object first serves this other alignment (stale state must not leak)
}

func runDist(cs *c07case, cpus int) (mat [][]float64, class string) {
	a, e := mkAlign(align.NUCLEOTIDS, cs.names, cs.seqs)
	if e != nil {
		return nil, "Skip"
	}
	var ws []float64
	if cs.useWeights {
		ws = make([]float64, len(cs.weights))
		for i, w := range cs.weights {
			ws[i] = w.f()
		}
	}
	class, _ = guarded(10e9, func() error {
		m, e := dna.Model(c07Models[cs.model], cs.rmgaps)
		if e != nil {
			return e
		}
		switch mm := m.(type) {
		case *dna.PDistModel:
			mm.SetCountGapMutations(cs.gapmode)
			mm.SetRemoveAmbiguous(cs.rmamb)
		case *dna.RawDistModel:
			mm.SetCountGapMutations(cs.gapmode)
		}
		rg := [4]int{-1, -1, -1, -1}
		if cs.ranges != nil {
			rg = *cs.ranges
		}
		if cs.warm != nil {
			wn := make([]string, len(cs.warm))
			for i := range wn {
				wn[i] = fmt.Sprintf("w%d", i)
			}
			if wa, we := mkAlign(align.NUCLEOTIDS, wn, cs.warm); we == nil {
				dna.DistMatrix(wa, nil, m, -1, -1, -1, -1, cs.gamma, cs.alpha.f(), 1)
			}
		}
		mat, e = dna.DistMatrix(a, ws, m, rg[0], rg[1], rg[2], rg[3], cs.gamma, cs.alpha.f(), cpus)
		return e
	})
	return
}

func (cs *c07case) coq() string {
	w := "None"
	if cs.useWeights {
		it := []string{}
		for _, x := range cs.weights {
			it = append(it, x.coq())
		}
		w = "(Some " + coqList(it) + ")"
	}
	rows := []string{}
	for _, r := range cs.matrix {
		it := []string{}
		for _, f := range r {
			it = append(it, flTerm(f))
		}
		rows = append(rows, coqList(it))
	}
	return fmt.Sprintf("mk %s %s %s %s %s %s %s %s %s %s", coqRows(cs.names, cs.seqs), coqZ(cs.model), coqBool(cs.gamma), cs.alpha.coq(),
		coqBool(cs.rmgaps), coqZ(cs.gapmode), coqBool(cs.rmamb), w, coqBool(cs.class != OutOk), coqList(rows))
}

func genC07(r *rand.Rand) *c07case {
	cs := &c07case{}
	nseq := 2 + r.Intn(3)
	L := 4 + r.Intn(20)
	cs.names = distinctNames(r, nseq)
	base := randSeq(r, L, func(r *rand.Rand) byte { return "ACGT"[r.Intn(4)] })
	cs.seqs = make([]string, nseq)
	mode := r.Intn(7)
	absent := r.Intn(8) == 0 // a base will be absent from the whole alignment
	if absent && r.Intn(2) == 0 {
		mode = 0 // ... and the rows identical: F81 / TN93 evaluate 0/0
	}
	if mode == 6 { // boundary: exactly 3/4 of the sites differ between rows 0 and 1 (JC69 argument exactly 0: +Inf)
		L = 4 * (1 + r.Intn(5))
		base = randSeq(r, L, func(r *rand.Rand) byte { return "ACGT"[r.Intn(4)] })
		if nseq < 3 {
			nseq = 3
			cs.names = distinctNames(r, nseq)
			cs.seqs = make([]string, nseq)
		}
	}
	for k := range cs.seqs {
		b := []byte(base)
		rate := []int{0, 8, 4, 2, 1, 1, 8}[mode] // 1/rate of the sites mutated; 0 = identical
		for j := range b {
			if rate > 0 && r.Intn(rate) == 0 {
				b[j] = "ACGT"[r.Intn(4)]
			}
			x := r.Intn(40)
			switch {
			case x == 0:
				b[j] = '-'
			case x == 1:
				b[j] = "RYNSWKMBDHV"[r.Intn(11)]
			case x == 2:
				b[j] = "acgt"[r.Intn(4)]
			}
		}
		if mode == 5 && k > 0 { // saturated: every site a transversion of the first row
			for j := range b {
				b[j] = map[byte]byte{'A': 'C', 'C': 'A', 'G': 'T', 'T': 'G'}[base[j]]
			}
		}
		if mode == 6 && k < 2 {
			b = []byte(base)
			if k == 1 {
				for _, j := range r.Perm(L)[:3*L/4] {
					b[j] = map[byte]byte{'A': 'C', 'C': 'G', 'G': 'T', 'T': 'A'}[base[j]]
				}
			}
		} else if r.Intn(6) == 0 { // leading / trailing gap runs
			g := 1 + r.Intn(3)
			for j := 0; j < g && j < L; j++ {
				if r.Intn(2) == 0 {
					b[j] = '-'
				} else {
					b[L-1-j] = '-'
				}
			}
		}
		cs.seqs[k] = string(b)
	}
	if absent { // (or a single base is left): zero frequencies
		proj := []map[byte]byte{{'G': 'A', 'g': 'a'}, {'G': 'A', 'g': 'a', 'T': 'C', 't': 'c'},
			{'C': 'A', 'G': 'A', 'T': 'A', 'c': 'a', 'g': 'a', 't': 'a'}, {'A': 'G', 'a': 'g'}}[r.Intn(4)]
		for k := range cs.seqs {
			b := []byte(cs.seqs[k])
			for j := range b {
				if x, ok := proj[b[j]]; ok {
					b[j] = x
				}
			}
			cs.seqs[k] = string(b)
		}
	}
	if r.Intn(30) == 0 {
		cs.seqs[0] = cs.seqs[0][:L-1] + "?" // no code: error
	}
	cs.model = r.Intn(7)
	if mode == 6 && r.Intn(2) == 0 {
		cs.model = 2
	}
	if absent && r.Intn(2) == 0 {
		cs.model = []int{4, 6, 5, 3}[r.Intn(4)]
	}
	if cs.model <= 1 && r.Intn(2) == 0 {
		// raw / p-distance: gaps and ambiguity codes (N above all) often facing each other, for the gap modes
		for k := range cs.seqs {
			b := []byte(cs.seqs[k])
			for j := range b {
				switch x := r.Intn(10); {
				case x < 2:
					b[j] = '-'
				case x < 4:
					b[j] = "NNNRYn"[r.Intn(6)]
				}
			}
			cs.seqs[k] = string(b)
		}
	}
	if r.Intn(3) == 0 {
		// the model object is used on another alignment (other base composition, other length) beforehand
		wl := 3 + r.Intn(12)
		cs.warm = make([]string, 2+r.Intn(3))
		pool := []string{"AAAC", "ACGT", "GGGCT", "TTTTA"}[r.Intn(4)]
		for k := range cs.warm {
			cs.warm[k] = randSeq(r, wl, func(r *rand.Rand) byte { return pool[r.Intn(len(pool))] })
		}
	}
	cs.gamma = r.Intn(3) == 0
	cs.alpha = []dyadic{{1, 2}, {1, 1}, {2, 1}, {3, 4}}[r.Intn(4)]
	cs.rmgaps = r.Intn(3) == 0
	cs.gapmode = r.Intn(3)
	cs.rmamb = r.Intn(2) == 0
	cs.useWeights = r.Intn(3) == 0
	cs.weights = make([]dyadic, L)
	for j := range cs.weights {
		cs.weights[j] = []dyadic{{1, 1}, {2, 1}, {1, 2}, {3, 1}, {1, 4}, {5, 2}}[r.Intn(6)]
		if r.Intn(4) == 0 {
			cs.weights[j] = dyadic{1, 1}
		}
	}
	return cs
}

func c07(args []string) error {
	g, err := parseGenFlags("c07", args)
	if err != nil {
		return err
	}
	r := rand.New(rand.NewSource(g.seed))
	w := newCaseWriter("C07")
	stats := map[string]int{}
	ncert := 0
	maxcert := 40
	if g.tier == "thorough" {
		maxcert = 1500
	}
	var certs bytes.Buffer
	certMeta := []map[string]interface{}{}
	certHeader := "From Coq Require Import List Bool NArith ZArith QArith Reals.\nFrom Coq.Strings Require Import Byte.\nImport ListNotations.\nFrom GA.Base Require Import Bytes.\nFrom GA.Corr Require Import C07 C07Cert.\nLocal Open Scope bs_scope.\n"
	certFiles := 0
	flushCerts := func() {
		if certs.Len() == 0 {
			return
		}
		os.WriteFile(fmt.Sprintf("%s_cert_%d.v", g.out, certFiles), append([]byte(certHeader), certs.Bytes()...), 0644)
		certFiles++
		certs.Reset()
	}
	for i := 0; i < g.n; i++ {
		cs := genC07(r)
		cs.matrix, cs.class = runDist(cs, 1)
		if cs.class == "Skip" {
			continue
		}
		if cs.matrix == nil {
			cs.matrix = [][]float64{}
		}
		term := cs.coq()
		w.add(term, map[string]interface{}{"op": "DistMatrix:" + c07Models[cs.model], "model": c07Models[cs.model], "gamma": cs.gamma, "alpha": cs.alpha.f(),
			"rmgaps": cs.rmgaps, "gapmode": cs.gapmode, "rmamb": cs.rmamb, "weights": cs.useWeights, "names": cs.names, "seqs": cs.seqs, "class": cs.class,
			"matrix": fmt.Sprint(cs.matrix)})
		stats[c07Models[cs.model]+":"+cs.class]++
		// certificates for the transcendental models on finite positive entries
		if cs.class == OutOk && cs.model >= 2 && ncert < maxcert {
			for a := 0; a < len(cs.matrix) && ncert < maxcert; a++ {
				for b := a + 1; b < len(cs.matrix); b++ {
					v := cs.matrix[a][b]
					// beyond 8 the estimator's argument is within rounding of its boundary (e.g. exactly 0 in
					// exact arithmetic, 5e-17 in binary64): such borderline pairs are not judged (Corr/C07.v)
					if math.IsNaN(v) || math.IsInf(v, 0) || v <= 0 || v > 8 {
						continue
					}
					// the substituted value 2*max is not the estimator's value
					isMaxSub := false
					for x := range cs.matrix {
						for y := range cs.matrix {
							if (x != a || y != b) && (x != b || y != a) && cs.matrix[x][y]*2 == v {
								isMaxSub = true
							}
						}
					}
					if isMaxSub || r.Intn(2) == 0 {
						continue
					}
					tol := 1e-9 * (1 + v)
					fmt.Fprintf(&certs, "(* CERT %d *)\nDefinition case_%d : case := %s.\nLemma cert_%d : cert case_%d %d %d %s %s.\nProof. cert_tac. Qed.\n",
						ncert, ncert, term, ncert, ncert, a, b, realLit(v), realLit(tol))
					certMeta = append(certMeta, map[string]interface{}{"cert": ncert, "case_idx": w.n() - 1, "pair": []int{a, b}, "go_value": v,
						"model": c07Models[cs.model], "gamma": cs.gamma, "alpha": cs.alpha.f(), "names": cs.names, "seqs": cs.seqs})
					ncert++
					if ncert%8 == 0 {
						flushCerts()
					}
					break
				}
			}
		}
	}
	flushCerts()
	var cm bytes.Buffer
	for _, m := range certMeta {
		b, _ := jsonMarshal(m)
		cm.Write(b)
		cm.WriteByte('\n')
	}
	os.WriteFile(g.out+"_certs.jsonl", cm.Bytes(), 0644)
	stats["certificates"] = ncert
	if g.only >= 0 {
		w.terms = w.terms[g.only : g.only+1]
		w.meta = w.meta[g.only : g.only+1]
	}
	if err := w.flush(g.out, "C07", g.per); err != nil {
		return err
	}
	writeStats(g.out, stats)
	return nil
}
