package main

// C12: cleaning of sites and sequences.

import (
	"fmt"
	"math/rand"

	"github.com/evolbioinfo/goalign/align"
)

func init() { register("c12", c12) }

type dyadic struct{ num, den int }

func (d dyadic) f() float64  { return float64(d.num) / float64(d.den) }
func (d dyadic) coq() string { return fmt.Sprintf("(%d # %d)%%Q", d.num, d.den) }

var c12Cutoffs = []dyadic{{0, 1}, {1, 4}, {1, 2}, {3, 4}, {1, 1}, {1, 8}, {3, 8}, {-1, 2}, {3, 2}}

func intsOf(l []int) []int { return append([]int{}, l...) }

func c12(args []string) error {
	g, err := parseGenFlags("c12", args)
	if err != nil {
		return err
	}
	r := rand.New(rand.NewSource(g.seed))
	w := newCaseWriter("C12")
	stats := map[string]int{}
	const nucl = "AC-NnXxa"

	run := func(alpha int, names, seqs []string, kind int, chars string, cut dyadic, ends, ic, ig, ins, rev bool, tag string) {
		a, e := mkAlign(alpha, names, seqs)
		if e != nil {
			return
		}
		var first, last int
		var kept, rm []int
		var opterm, opname string
		class, _ := guarded(5e9, func() error {
			switch kind {
			case 0:
				opname = "RemoveCharacterSites"
				opterm = fmt.Sprintf("OpCharSites %s %s %s %s %s %s %s", coqStr(chars), cut.coq(), coqBool(ends), coqBool(ic), coqBool(ig), coqBool(ins), coqBool(rev))
				first, last, kept, rm = a.RemoveCharacterSites([]uint8(chars), cut.f(), ends, ic, ig, ins, rev)
			case 1:
				opname = "RemoveGapSites"
				opterm = fmt.Sprintf("OpGapSites %s %s", cut.coq(), coqBool(ends))
				first, last, kept, rm = a.RemoveGapSites(cut.f(), ends)
			case 2:
				opname = "RemoveMajorityCharacterSites"
				opterm = fmt.Sprintf("OpMajSites %s %s %s %s", cut.coq(), coqBool(ends), coqBool(ig), coqBool(ins))
				first, last, kept, rm = a.RemoveMajorityCharacterSites(cut.f(), ends, ig, ins)
			case 3:
				opname = "RemoveCharacterSeqs"
				opterm = fmt.Sprintf("OpCharSeqs %s %s %s %s %s", coqByte(chars[0]), cut.coq(), coqBool(ic), coqBool(ig), coqBool(ins))
				first = a.RemoveCharacterSeqs(chars[0], cut.f(), ic, ig, ins)
			case 4:
				opname = "RemoveGapSeqs"
				opterm = fmt.Sprintf("OpGapSeqs %s %s", cut.coq(), coqBool(ins))
				first = a.RemoveGapSeqs(cut.f(), ins)
			}
			return nil
		})
		if class != OutOk {
			first, last = -99, -99 // a panic or hang: both oracles must fail
		}
		outN, outS := alignContent(a)
		term := fmt.Sprintf("mk %s %s (%s) %s %s %s %s %s %s", coqZ(alpha), coqRows(names, seqs), opterm,
			coqZ(first), coqZ(last), coqZList(intsOf(kept)), coqZList(intsOf(rm)), coqRows(outN, outS), coqZ(a.Length()))
		w.add(term, map[string]interface{}{"op": opname, "opterm": opterm, "alphabet": alpha, "names": names, "seqs": seqs,
			"class": class, "first": first, "last": last, "kept": intsOf(kept), "rm": intsOf(rm), "out_names": outN, "out_seqs": outS, "tag": tag})
		stats[opname]++
	}

	// bounded-exhaustive block (thorough): all <=2x3 alignments over a 5-letter alphabet x cutoffs x options
	if g.tier == "thorough" {
		letters := "A-NnX"
		var rec func(cur []byte, n int, f func([]byte))
		rec = func(cur []byte, n int, f func([]byte)) {
			if len(cur) == n {
				f(cur)
				return
			}
			for i := 0; i < len(letters); i++ {
				rec(append(cur, letters[i]), n, f)
			}
		}
		cnt := 0
		rec(nil, 6, func(cells []byte) {
			cnt++
			seqs := []string{string(cells[:3]), string(cells[3:])}
			opt := cnt % 32
			cut := c12Cutoffs[cnt%5]
			alpha := []int{align.NUCLEOTIDS, align.AMINOACIDS}[cnt%2]
			run(alpha, []string{"a", "b"}, seqs, cnt%3, []string{"-", "N", "A", "X"}[(cnt/3)%4], cut, opt&1 != 0, opt&2 != 0, opt&4 != 0, opt&8 != 0, opt&16 != 0, "exhaustive")
		})
	}

	for i := 0; i < g.n; i++ {
		nseq := 1 + r.Intn(4)
		L := randLen(r, 10)
		names := distinctNames(r, nseq)
		seqs := make([]string, nseq)
		// columns with a shared bias so that prefixes / suffixes of qualifying sites occur
		colbias := make([]int, L)
		for j := range colbias {
			colbias[j] = r.Intn(4)
		}
		for k := range seqs {
			b := make([]byte, L)
			for j := range b {
				switch colbias[j] {
				case 0:
					b[j] = '-'
					if r.Intn(5) == 0 {
						b[j] = nucl[r.Intn(len(nucl))]
					}
				case 1:
					b[j] = "Nn"[r.Intn(2)]
					if r.Intn(3) == 0 {
						b[j] = nucl[r.Intn(len(nucl))]
					}
				default:
					b[j] = nucl[r.Intn(len(nucl))]
				}
			}
			seqs[k] = string(b)
		}
		alpha := []int{align.NUCLEOTIDS, align.AMINOACIDS}[r.Intn(2)]
		cut := c12Cutoffs[r.Intn(len(c12Cutoffs))]
		if r.Intn(3) > 0 {
			cut = c12Cutoffs[r.Intn(5)]
		}
		chars := []string{"-", "N", "A", "X", "a", "-N", "AC", "n", "x"}[r.Intn(9)]
		run(alpha, names, seqs, r.Intn(5), chars, cut, r.Intn(2) == 0, r.Intn(2) == 0, r.Intn(2) == 0, r.Intn(2) == 0, r.Intn(3) == 0, "random")
	}
	// an alignment without any sequence (length -1): every operation is a no-op, none may crash
	for kind := 0; kind < 5; kind++ {
		run(align.NUCLEOTIDS, []string{}, []string{}, kind, "-", c12Cutoffs[kind%len(c12Cutoffs)], kind%2 == 0, false, false, false, false, "empty")
	}
	if g.only >= 0 {
		w.terms = w.terms[g.only : g.only+1]
		w.meta = w.meta[g.only : g.only+1]
	}
	if err := w.flush(g.out, "C12", g.per); err != nil {
		return err
	}
	writeStats(g.out, stats)
	return nil
}
