package main

// C01: container histories.

import (
	"fmt"
	"math/rand"
	"regexp"
	"sort"
	"strings"

	"github.com/evolbioinfo/goalign/align"
)

func init() { register("c01", c01) }

var c01Universe = []string{"a01", "ab01", "a02", "a", "b", "s1", "s1_0001", "a_0001", "x y", " a", "a:b", "S1", "S2", "ab", "ba", "a_x", "xa"}

func c01(args []string) error {
	g, err := parseGenFlags("c01", args)
	if err != nil {
		return err
	}
	r := rand.New(rand.NewSource(g.seed))
	w := newCaseWriter("C01")
	stats := map[string]int{}

	seqOfLen := func(l int) string {
		return randSeq(r, l, func(r *rand.Rand) byte { return "ACGTacgt-N"[r.Intn(10)] })
	}
	name := func() string { return c01Universe[r.Intn(len(c01Universe))] }

	observe := func(sb align.SeqBag, al align.Alignment, class string) string {
		n, s := alignContent(sb)
		ln := -2
		if al != nil {
			ln = al.Length()
		}
		look := []string{}
		for _, u := range c01Universe {
			sq, ok := sb.GetSequence(u)
			o := "None"
			if ok {
				o = "(Some " + coqStr(sq) + ")"
			}
			look = append(look, fmt.Sprintf("(%s, %s)", o, coqZ(sb.GetSequenceIdByName(u))))
		}
		return fmt.Sprintf("mkobs %s %s %s %s %s", coqBool(class != OutOk), coqZ(sb.NbSequences()), coqZ(ln), coqRows(n, s), coqList(look))
	}

	for i := 0; i < g.n; i++ {
		isAlign := r.Intn(3) > 0
		alpha := align.NUCLEOTIDS
		L := 1 + r.Intn(5)
		if r.Intn(8) == 0 {
			L = 1
		}
		if r.Intn(14) == 0 {
			L = 0 // rows without any column: the length is 0, not "unset"
		}
		ninit := r.Intn(5)
		// many rows sharing a few base names (auto-renamed on insertion), later renamed back to duplicates
		big := isAlign && r.Intn(10) == 0
		if big {
			ninit = 13 + r.Intn(12)
		}
		initN, initS := []string{}, []string{}
		for k := 0; k < ninit; k++ {
			if big {
				initN = append(initN, []string{"a", "b", "s1"}[r.Intn(3)])
			} else {
				initN = append(initN, name())
			}
			l := L
			if !isAlign {
				l = r.Intn(6)
			}
			initS = append(initS, seqOfLen(l))
		}
		var sb align.SeqBag
		var al align.Alignment
		if isAlign {
			a := align.NewAlign(alpha)
			for k := range initN {
				a.AddSequence(initN[k], initS[k], "")
			}
			al, sb = a, a
		} else {
			b := align.NewSeqBag(alpha)
			for k := range initN {
				b.AddSequence(initN[k], initS[k], "")
			}
			sb = b
		}
		nsteps := 1 + r.Intn(8)
		dupSample := !big && ninit >= 2 && r.Intn(10) == 0
		if dupSample && nsteps < 3 {
			nsteps = 3
		}
		trimMap := map[string]string{}
		curPolicy := align.IGNORE_NONE
		steps := []string{}
		hist := []string{}
		bad := false
		for sidx := 0; sidx < nsteps && !bad; sidx++ {
			var opterm string
			var f func() error
			stopOnErr := false
			kind := r.Intn(23)
			if big && sidx == 0 {
				kind = 100
			} else if big && sidx == 1 {
				kind = 10
			} else if big && sidx == 2 {
				kind = 101
			}
			if !big && sidx > 0 && r.Intn(12) == 0 {
				kind = 101 // renames of names that several rows may share by now
			}
			// a non-default duplicate policy, rows renamed to shared names, then every row drawn by Sample: the sample is a
			// fresh container with the default policy, no drawn row may be dropped
			if dupSample {
				switch sidx {
				case 0:
					kind = 3
				case 1:
					kind = 100
				case 2:
					kind = 200
				}
			}
			curL := L
			if isAlign && al.Length() >= 0 {
				curL = al.Length()
			}
			switch kind {
			case 0, 1, 2:
				n := name()
				l := curL
				if r.Intn(5) == 0 || !isAlign {
					l = r.Intn(6)
				}
				s := seqOfLen(l)
				if (r.Intn(4) == 0 || (curPolicy == align.IGNORE_SEQUENCE && r.Intn(2) == 0)) && sb.NbSequences() > 0 { // same name and same sequence as an existing row
					k := r.Intn(sb.NbSequences())
					n, _ = sb.GetSequenceNameById(k)
					switch r.Intn(3) {
					case 0:
						s, _ = sb.GetSequenceById(k)
					case 1: // same residues up to letter case
						s0, _ := sb.GetSequenceById(k)
						b := []byte(s0)
						for q := range b {
							if r.Intn(2) == 0 {
								if b[q] >= 'a' && b[q] <= 'z' {
									b[q] -= 32
								} else if b[q] >= 'A' && b[q] <= 'Z' {
									b[q] += 32
								}
							}
						}
						s = string(b)
					}
				}
				opterm = fmt.Sprintf("BAdd %s %s", coqStr(n), coqStr(s))
				f = func() error { return sb.AddSequence(n, s, "") }
			case 3:
				p := []int{align.IGNORE_NONE, align.IGNORE_NAME, align.IGNORE_SEQUENCE, 7}[r.Intn(4)]
				if dupSample && sidx == 0 {
					p = []int{align.IGNORE_NAME, align.IGNORE_SEQUENCE}[r.Intn(2)]
				}
				opterm = "BPolicy " + coqZ(p)
				curPolicy = p
				f = func() error { sb.IgnoreIdentical(p); return nil }
			case 4:
				if !isAlign {
					continue
				}
				k := 1 + r.Intn(3)
				on, os := []string{}, []string{}
				oth := align.NewAlign(alpha)
				ol := curL
				if r.Intn(4) == 0 {
					ol = 1 + r.Intn(5)
				}
				for q := 0; q < k; q++ {
					oth.AddSequence(name(), seqOfLen(ol), "")
				}
				var oa align.Alignment = oth
				on, os = alignContent(oa)
				opterm = "BAppend " + coqRows(on, os)
				f = func() error { return al.Append(oa) }
			case 5:
				id := []string{"_x", "x", "", "_0001"}[r.Intn(4)]
				right := r.Intn(2) == 0
				opterm = fmt.Sprintf("BIdent %s %s", coqStr(id), coqBool(right))
				f = func() error { sb.AppendSeqIdentifier(id, right); return nil }
			case 6:
				m := map[string]string{}
				it := []string{}
				for q := 0; q < 1+r.Intn(3); q++ {
					k, v := name(), name()
					if _, ok := m[k]; ok {
						continue
					}
					m[k] = v
					it = append(it, fmt.Sprintf("(%s, %s)", coqStr(k), coqStr(v)))
				}
				opterm = "BRename " + coqList(it)
				f = func() error { sb.Rename(m); return nil }
			case 100: // several rows renamed to one name
				m := map[string]string{}
				it := []string{}
				for q := 0; q < sb.NbSequences(); q++ {
					nm, _ := sb.GetSequenceNameById(q)
					if r.Intn(2) == 0 && !dupSample {
						continue
					}
					v := []string{"a", "b", "s1", "ab"}[r.Intn(4)]
					if dupSample {
						v = []string{"a", "b"}[r.Intn(2)]
					}
					if _, ok := m[nm]; ok {
						continue
					}
					m[nm] = v
					it = append(it, fmt.Sprintf("(%s, %s)", coqStr(nm), coqStr(v)))
				}
				opterm = "BRename " + coqList(it)
				f = func() error { sb.Rename(m); return nil }
			case 101: // the shared names are renamed again: every row carrying the name must follow
				m := map[string]string{}
				it := []string{}
				for _, k := range []string{"a", "b", "s1", "ab"} {
					if r.Intn(3) > 0 {
						v := []string{"ba", "xa", "a_x", "S1", "b"}[r.Intn(5)]
						m[k] = v
						it = append(it, fmt.Sprintf("(%s, %s)", coqStr(k), coqStr(v)))
					}
				}
				opterm = "BRename " + coqList(it)
				f = func() error { sb.Rename(m); return nil }
			case 21, 22: // Concat with rows shared and not shared, often narrow
				if !isAlign {
					continue
				}
				k := r.Intn(5)
				cl := 1 + r.Intn(4)
				if r.Intn(4) == 0 {
					cl = 5 + r.Intn(12)
				}
				calpha := alpha
				if r.Intn(15) == 0 {
					calpha = align.AMINOACIDS
				}
				oth := align.NewAlign(calpha)
				for q := 0; q < k; q++ {
					nm := name()
					if sb.NbSequences() > 0 && r.Intn(3) == 0 {
						nm, _ = sb.GetSequenceNameById(r.Intn(sb.NbSequences()))
					}
					if _, ok := oth.GetSequence(nm); ok {
						continue
					}
					oth.AddSequence(nm, seqOfLen(cl), "")
				}
				var oa align.Alignment = oth
				on, os := alignContent(oa)
				opterm = fmt.Sprintf("BConcat %s %s", coqZ(calpha), coqRows(on, os))
				f = func() error { return al.Concat(oa) }
				stopOnErr = true
			case 7:
				old := []string{"a", "_", "s1", "b", "x"}[r.Intn(5)]
				nw := []string{"", "b", "zz", "a"}[r.Intn(4)]
				opterm = fmt.Sprintf("BRenameLit %s %s", coqStr(old), coqStr(nw))
				f = func() error { return sb.RenameRegexp(regexp.QuoteMeta(old), nw, map[string]string{}) }
			case 8:
				opterm = "BCleanNames"
				f = func() error { sb.CleanNames(nil); return nil }
			case 9:
				cur := []int{1, 9, 10, 99, 7}[r.Intn(5)]
				opterm = "BTrimAuto " + coqZ(cur)
				f = func() error { c := cur; return sb.TrimNamesAuto(map[string]string{}, &c) }
			case 10:
				opterm = "BSort"
				f = func() error { sb.Sort(); return nil }
			case 11:
				seed := r.Int63()
				n := sb.NbSequences()
				rand.Seed(seed)
				draws := []int{}
				for q := n; q > 1; q-- {
					draws = append(draws, rand.Intn(q))
				}
				opterm = "BShuffle " + coqZList(draws)
				f = func() error { rand.Seed(seed); sb.ShuffleSequences(); return nil }
			case 12:
				mn, mx := r.Intn(7)-1, r.Intn(7)-1
				opterm = fmt.Sprintf("BFilterLength %s %s", coqZ(mn), coqZ(mx))
				f = func() error { return sb.FilterLength(mn, mx) }
			case 13:
				if r.Intn(4) > 0 {
					continue
				}
				opterm = "BClear"
				f = func() error {
					if isAlign {
						al.Clear()
					} else {
						sb.Clear()
					}
					return nil
				}
			case 14:
				opterm = "BClone"
				f = func() error {
					if isAlign {
						c, e := al.Clone()
						if e != nil {
							return e
						}
						al, sb = c, c
					} else {
						c, e := sb.CloneSeqBag()
						if e != nil {
							return e
						}
						sb = c
					}
					return nil
				}
			case 19, 20: // TrimNames with the history's shared name map
				size := 3 + r.Intn(4)
				keys := make([]string, 0, len(trimMap))
				for k := range trimMap {
					keys = append(keys, k)
				}
				sort.Strings(keys)
				it := []string{}
				for _, k := range keys {
					it = append(it, fmt.Sprintf("(%s, %s)", coqStr(k), coqStr(trimMap[k])))
				}
				opterm = fmt.Sprintf("BTrim %s %s", coqList(it), coqZ(size))
				f = func() error { return sb.TrimNames(trimMap, size) }
			case 15, 16:
				ii, jj := boundaryInt(r, sb.NbSequences()), boundaryInt(r, curL)
				c := "ACGT-"[r.Intn(5)]
				opterm = fmt.Sprintf("BSetChar %s %s %s", coqZ(ii), coqZ(jj), coqByte(c))
				f = func() error { return sb.SetSequenceChar(ii, jj, c) }
			default:
				nb := boundaryInt(r, sb.NbSequences())
				if kind == 200 {
					nb = sb.NbSequences()
				}
				seed := r.Int63()
				rand.Seed(seed)
				perm := rand.Perm(sb.NbSequences())
				opterm = fmt.Sprintf("BSample %s %s", coqZ(nb), coqZList(perm))
				f = func() error {
					rand.Seed(seed)
					if isAlign {
						s, e := al.Sample(nb)
						if e != nil {
							return e
						}
						al, sb = s, s
					} else {
						s, e := sb.SampleSeqBag(nb)
						if e != nil {
							return e
						}
						sb = s
					}
					return nil
				}
			}
			class, msg := guarded(5e9, f)
			stats[strings.Fields(opterm)[0]+":"+class]++
			if class == OutPanic || class == OutDiverge {
				// the container may be in any state: record an impossible observation and stop the history
				steps = append(steps, fmt.Sprintf("(%s, mkobs true (-7)%%Z (-7)%%Z [] [])", opterm))
				hist = append(hist, opterm+" => "+class+" "+msg)
				bad = true
				break
			}
			steps = append(steps, fmt.Sprintf("(%s, %s)", opterm, observe(sb, al, class)))
			hist = append(hist, opterm+" => "+class)
			if stopOnErr && class != OutOk {
				break
			}
		}
		term := fmt.Sprintf("mk %s %s %s %s %s", coqBool(isAlign), coqZ(alpha), coqRows(initN, initS), coqStrList(c01Universe), coqList(steps))
		fn, fs := alignContent(sb)
		w.add(term, map[string]interface{}{"op": "history", "is_align": isAlign, "init_names": initN, "init_seqs": initS, "history": hist, "final_names": fn, "final_seqs": fs, "nsteps": len(hist)})
	}
	if g.only >= 0 {
		w.terms = w.terms[g.only : g.only+1]
		w.meta = w.meta[g.only : g.only+1]
	}
	if err := w.flush(g.out, "C01", g.per); err != nil {
		return err
	}
	writeStats(g.out, stats)
	return nil
}
