package main

// C15: masking.

import (
	"bytes"
	"fmt"
	"math"
	"math/rand"
	"os"
	"os/exec"
	"path/filepath"
	"strings"

	"github.com/evolbioinfo/goalign/align"
	"github.com/evolbioinfo/goalign/io/phylip"
)

func init() { register("c15", c15) }

func c15(args []string) error {
	g, err := parseGenFlags("c15", args)
	if err != nil {
		return err
	}
	r := rand.New(rand.NewSource(g.seed))
	w := newCaseWriter("C15")
	stats := map[string]int{}
	modes := []string{"", "AMBIG", "GAP", "MAJ", "?", "n", "XX", "maj"}

	emit := func(alpha int, names, seqs []string, opname, opterm string, f func(a align.Alignment) error) {
		a, e := mkAlign(alpha, names, seqs)
		if e != nil {
			return
		}
		class, _ := guarded(5e9, func() error { return f(a) })
		outN, outS := alignContent(a)
		term := fmt.Sprintf("mk %s %s (%s) %s %s %s", coqZ(alpha), coqRows(names, seqs), opterm, coqBool(class != OutOk), coqRows(outN, outS), coqZ(a.Length()))
		w.add(term, map[string]interface{}{"op": opname, "opterm": opterm, "alphabet": alpha, "names": names, "seqs": seqs, "class": class, "out_names": outN, "out_seqs": outS})
		stats[opname+":"+class]++
	}

	gen := func() (int, []string, []string) {
		nseq := 1 + r.Intn(5)
		L := randLen(r, 10)
		names := distinctNames(r, nseq)
		seqs := make([]string, nseq)
		// a consensus with per-row mutations: rare residues and majority ties occur
		cons := randSeq(r, L, func(r *rand.Rand) byte { return "ACGT-"[r.Intn(5)] })
		for k := range seqs {
			b := []byte(cons)
			for j := range b {
				if r.Intn(4) == 0 {
					b[j] = "ACGT-N"[r.Intn(6)]
				} else if r.Intn(12) == 0 {
					b[j] = ".*.a"[r.Intn(4)] // match characters, stops, lower case
				}
			}
			seqs[k] = string(b)
		}
		alpha := align.NUCLEOTIDS
		switch r.Intn(8) {
		case 0:
			alpha = align.AMINOACIDS
		case 1:
			alpha = align.UNKNOWN
		}
		return alpha, names, seqs
	}

	// every window on one small alignment (start, length in [-1, L+2])
	{
		names := []string{"a", "b", "c"}
		seqs := []string{"AC-GT", "ACTG-", "C-TGT"}
		for s := -1; s <= 7; s++ {
			for l := -1; l <= 7; l++ {
				for _, fl := range []int{0, 1, 2, 3} {
					nogap, noref := fl&1 != 0, fl&2 != 0
					ss, ll := s, l
					emit(align.NUCLEOTIDS, names, seqs, "Mask", fmt.Sprintf("OpMask %s %s %s %s %s %s", coqStr("a"), coqZ(ss), coqZ(ll), coqStr(""), coqBool(nogap), coqBool(noref)),
						func(a align.Alignment) error { return a.Mask("a", ss, ll, "", nogap, noref) })
				}
			}
		}
	}

	for i := 0; i < g.n; i++ {
		alpha, names, seqs := gen()
		L := 0
		if len(seqs) > 0 {
			L = len(seqs[0])
		}
		ref := ""
		if r.Intn(3) > 0 {
			ref = names[r.Intn(len(names))]
		}
		if r.Intn(15) == 0 {
			ref = "nosuch"
		}
		mr := modes[r.Intn(4)]
		if r.Intn(6) == 0 {
			mr = modes[r.Intn(len(modes))]
		}
		// goalign mask --ref-seq on a file holding the alignment twice: every alignment of the file gets the window asked for
		if bin := os.Getenv("VERIF_GOALIGN_BIN"); bin != "" && ref != "" && ref != "nosuch" && alpha == align.NUCLEOTIDS && L > 0 && r.Intn(4) == 0 {
			if a2, e := mkAlign(alpha, names, seqs); e == nil {
				if tmpd, e := os.MkdirTemp("", "c15cli"); e == nil {
					one := phylip.WriteAlignment(a2, false, false, false)
					inf := filepath.Join(tmpd, "in.phy")
					os.WriteFile(inf, []byte(one+one), 0644)
					cs, cl := r.Intn(L), 1+r.Intn(3)
					args := []string{"mask", "-p", "-i", inf, "--ref-seq", ref, "-s", fmt.Sprint(cs), "-l", fmt.Sprint(cl)}
					if r.Intn(2) == 0 {
						args = append(args, "--replace", "GAP")
					}
					cmd := exec.Command(bin, args...)
					var stdout bytes.Buffer
					cmd.Stdout = &stdout
					agree := true
					if cmd.Run() == nil {
						ch := align.AlignChannel{Achan: make(chan align.Alignment, 10)}
						go phylip.NewParser(bytes.NewReader(stdout.Bytes()), false).ParseMultiple(&ch)
						var outs []string
						for x := range ch.Achan {
							n2, s2 := alignContent(x)
							outs = append(outs, fmt.Sprint(n2, s2))
						}
						agree = ch.Err == nil && len(outs) == 2 && outs[0] == outs[1]
					}
					os.RemoveAll(tmpd)
					what := "goalign " + strings.Join(args[:2], " ") + " --ref-seq -s -l on a file holding the alignment twice: both results equal"
					term := fmt.Sprintf("mk %s %s (OpCli %s) %s %s %s", coqZ(alpha), coqRows(names, seqs), coqStr(what), coqBool(!agree), coqRows(names, seqs), coqZ(L))
					w.add(term, map[string]interface{}{"op": "cli:mask twice", "alphabet": alpha, "names": names, "seqs": seqs, "args": args, "agree": agree})
					stats["cli:mask twice"]++
				}
			}
		}
		switch r.Intn(3) {
		case 0:
			s, l := boundaryInt(r, L), boundaryInt(r, L)
			if r.Intn(2) == 0 {
				s = r.Intn(L + 1)
				l = r.Intn(L + 3)
			}
			if r.Intn(8) == 0 { // a length near the largest integer: start+length must not wrap around
				s = r.Intn(L + 1)
				l = math.MaxInt64 - r.Intn(3)
			}
			nogap, noref := r.Intn(2) == 0, r.Intn(2) == 0
			emit(alpha, names, seqs, "Mask", fmt.Sprintf("OpMask %s %s %s %s %s %s", coqStr(ref), coqZ(s), coqZ(l), coqStr(mr), coqBool(nogap), coqBool(noref)),
				func(a align.Alignment) error { return a.Mask(ref, s, l, mr, nogap, noref) })
		case 1:
			mo := r.Intn(len(names)+2) - 0
			if r.Intn(10) == 0 {
				mo = -1
			}
			emit(alpha, names, seqs, "MaskOccurences", fmt.Sprintf("OpMaskOcc %s %s %s", coqStr(ref), coqZ(mo), coqStr(mr)),
				func(a align.Alignment) error { return a.MaskOccurences(ref, mo, mr) })
		default:
			emit(alpha, names, seqs, "MaskUnique", fmt.Sprintf("OpMaskUnique %s %s", coqStr(ref), coqStr(mr)),
				func(a align.Alignment) error { return a.MaskUnique(ref, mr) })
		}
	}
	if g.only >= 0 {
		w.terms = w.terms[g.only : g.only+1]
		w.meta = w.meta[g.only : g.only+1]
	}
	if err := w.flush(g.out, "C15", g.per); err != nil {
		return err
	}
	writeStats(g.out, stats)
	return nil
}
