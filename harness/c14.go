package main

// C14: column statistics and consensus.

import (
	"bytes"
	"fmt"
	"math"
	"math/big"
	"math/rand"
	"os"
	"os/exec"
	"path/filepath"
	"reflect"
	"sort"
	"strings"

	"github.com/evolbioinfo/goalign/align"
)

func init() { register("c14", c14) }

// exact value of a finite float64 as num * 2^exp
func floatDyadic(f float64) (num *big.Int, exp int) {
	if f == 0 {
		return big.NewInt(0), 0
	}
	fr, e := math.Frexp(f) // f = fr * 2^e, 0.5 <= |fr| < 1
	m := int64(fr * (1 << 53))
	return big.NewInt(m), e - 53
}

func kvTerm(m map[uint8]int) string {
	ks := []int{}
	for k := range m {
		ks = append(ks, int(k))
	}
	sort.Ints(ks)
	it := []string{}
	for _, k := range ks {
		it = append(it, fmt.Sprintf("(%s, %s)", coqByte(uint8(k)), coqZ(m[uint8(k)])))
	}
	return coqList(it)
}

func c14(args []string) error {
	g, err := parseGenFlags("c14", args)
	if err != nil {
		return err
	}
	r := rand.New(rand.NewSource(g.seed))
	w := newCaseWriter("C14")
	stats := map[string]int{}

	type res struct {
		class string
		bytes string
		kv    string
		l1    []int
		l2    []int
		rowsN []string
		rowsS []string
		num   string
		den   int
		flag  bool
		pairs string
		diffs string
	}
	add := func(alpha int, names, seqs []string, opname, opterm string, x res) {
		if x.kv == "" {
			x.kv = "[]"
		}
		if x.num == "" {
			x.num = "0"
		}
		if x.pairs == "" {
			x.pairs = "[]"
		}
		if x.diffs == "" {
			x.diffs = "[]"
		}
		numz := "(" + x.num + ")%Z"
		term := fmt.Sprintf("mk %s %s (%s) %s %s %s %s %s %s %s %s %s %s %s", coqZ(alpha), coqRows(names, seqs), opterm, coqBool(x.class != OutOk),
			coqStr(x.bytes), x.kv, coqZList(x.l1), coqZList(x.l2), coqRows(x.rowsN, x.rowsS), numz, coqZ(x.den), coqBool(x.flag), x.pairs, x.diffs)
		w.add(term, map[string]interface{}{"op": opname, "opterm": opterm, "alphabet": alpha, "names": names, "seqs": seqs, "class": x.class,
			"bytes": x.bytes, "kv": x.kv, "l1": x.l1, "l2": x.l2, "num": x.num, "den": x.den, "flag": x.flag, "pairs": x.pairs, "diffs": x.diffs})
		stats[opname+":"+x.class]++
	}

	ncert := 0
	maxcert := 80
	if g.n > 4000 {
		maxcert = 600
	}
	var certs bytes.Buffer
	certMeta := []map[string]interface{}{}
	certHeader := "From Coq Require Import List Bool NArith ZArith QArith Reals.\nFrom Coq.Strings Require Import Byte.\nImport ListNotations.\nFrom GA.Base Require Import Bytes.\nFrom GA.Corr Require Import C14 C14Cert.\nLocal Open Scope bs_scope.\n"
	certFiles := 0
	flushCerts := func() {
		if certs.Len() == 0 {
			return
		}
		os.WriteFile(fmt.Sprintf("%s_cert_%d.v", g.out, certFiles), append([]byte(certHeader), certs.Bytes()...), 0644)
		certFiles++
		certs.Reset()
	}
	for i := 0; i < g.n; i++ {
		nseq := randLen(r, 6)
		L := randLen(r, 9)
		names := distinctNames(r, nseq)
		seqs := make([]string, nseq)
		letters := "ACGTacgt-N"
		switch r.Intn(5) {
		case 0:
			letters = "AC-"
		case 1:
			letters = "ACGTRYNn-.*"
		case 2:
			letters = "ARNDXx-LK"
		}
		// column-wise generation so that ties, all-gap and all-N columns occur
		colmode := make([]int, L)
		for j := range colmode {
			colmode[j] = r.Intn(6)
		}
		bs := make([][]byte, nseq)
		for k := range bs {
			bs[k] = make([]byte, L)
			for j := 0; j < L; j++ {
				switch colmode[j] {
				case 0:
					bs[k][j] = '-'
				case 1:
					bs[k][j] = 'N'
				case 2:
					bs[k][j] = letters[(k+j)%2] // two-way tie when nseq is even
				case 3:
					bs[k][j] = "AA..CC-N*n"[r.Intn(10)] // pairs of special characters
				default:
					bs[k][j] = letters[r.Intn(len(letters))]
				}
			}
			seqs[k] = string(bs[k])
		}
		alpha := align.NUCLEOTIDS
		if strings.Contains(letters, "L") {
			alpha = align.AMINOACIDS
		} else if r.Intn(10) == 0 {
			alpha = align.UNKNOWN
		}
		a, e := mkAlign(alpha, names, seqs)
		if e != nil {
			continue
		}
		x := res{l1: []int{}, l2: []int{}, rowsN: []string{}, rowsS: []string{}}
		kind := r.Intn(21)
		switch kind {
		case 0:
			var m map[uint8]int64
			x.class, _ = guarded(5e9, func() error { m = a.CharStats(); return nil })
			mm := map[uint8]int{}
			for k, v := range m {
				mm[k] = int(v)
			}
			x.kv = kvTerm(mm)
			add(alpha, names, seqs, "CharStats", "OpCharStats", x)
		case 1:
			x.class, _ = guarded(5e9, func() error { x.bytes = string(a.UniqueCharacters()); return nil })
			add(alpha, names, seqs, "UniqueCharacters", "OpUnique", x)
		case 2:
			idx := boundaryInt(r, nseq)
			x.class, _ = guarded(5e9, func() error { m, e := a.CharStatsSeq(idx); x.kv = kvTerm(m); return e })
			if x.class != OutOk {
				x.kv = "[]"
			}
			add(alpha, names, seqs, "CharStatsSeq", "OpCharStatsSeq "+coqZ(idx), x)
		case 3:
			site := boundaryInt(r, L)
			x.class, _ = guarded(5e9, func() error { m, e := a.CharStatsSite(site); x.kv = kvTerm(m); return e })
			if x.class != OutOk {
				x.kv = "[]"
			}
			add(alpha, names, seqs, "CharStatsSite", "OpCharStatsSite "+coqZ(site), x)
		case 4, 5:
			ig, ins := r.Intn(2) == 0, r.Intn(2) == 0
			x.flag = true
			x.class, _ = guarded(5e9, func() error {
				out, occ, tot := a.MaxCharStats(ig, ins)
				x.bytes, x.l1, x.l2 = string(out), intsOf(occ), intsOf(tot)
				for rep := 0; rep < 20; rep++ {
					o2, c2, t2 := a.MaxCharStats(ig, ins)
					if string(o2) != x.bytes || !reflect.DeepEqual(intsOf(c2), x.l1) || !reflect.DeepEqual(intsOf(t2), x.l2) {
						x.flag = false
					}
				}
				return nil
			})
			add(alpha, names, seqs, "MaxCharStats", fmt.Sprintf("OpMaxChar %s %s", coqBool(ig), coqBool(ins)), x)
		case 6:
			ig, ins := r.Intn(2) == 0, r.Intn(2) == 0
			if nseq == 0 {
				continue
			}
			x.class, _ = guarded(5e9, func() error {
				c := a.Consensus(ig, ins)
				var cs align.Alignment = c
				x.rowsN, x.rowsS = alignContent(cs)
				return nil
			})
			add(alpha, names, seqs, "Consensus", fmt.Sprintf("OpConsensus %s %s", coqBool(ig), coqBool(ins)), x)
		case 7:
			site := boundaryInt(r, L)
			rg := r.Intn(2) == 0
			if r.Intn(2) == 0 {
				// a tall column with several kinds of characters (the sum then has many terms)
				nseq = 8 + r.Intn(24)
				names = distinctNames(r, nseq)
				seqs = make([]string, nseq)
				pool := "ACGTRYN-*."[:3+r.Intn(8)]
				for k := range seqs {
					seqs[k] = randSeq(r, L, func(r *rand.Rand) byte { return pool[r.Intn(len(pool))] })
				}
				if a, e = mkAlign(alpha, names, seqs); e != nil {
					continue
				}
			}
			var ev float64
			agree := 1
			x.class, _ = guarded(5e9, func() error {
				v, e := a.Entropy(site, rg)
				x.flag = math.IsNaN(v)
				ev = v
				if e == nil {
					// repeated calls must return the same bits
					for rep := 0; rep < 40; rep++ {
						v2, e2 := a.Entropy(site, rg)
						if e2 != nil || math.Float64bits(v2) != math.Float64bits(v) {
							agree = 0
						}
					}
				}
				return e
			})
			if x.class != OutOk {
				x.flag = false
			} else {
				x.l1 = []int{agree}
				if !x.flag && !math.IsInf(ev, 0) {
					n, e := floatDyadic(ev)
					x.num, x.den = n.String(), e
				}
			}
			add(alpha, names, seqs, "Entropy", fmt.Sprintf("OpEntropy %s %s", coqZ(site), coqBool(rg)), x)
			if x.class == OutOk && !x.flag && ncert < maxcert {
				fmt.Fprintf(&certs, "(* CERT %d *)\nDefinition case_%d : case := %s.\nLemma cert_%d : cert case_%d %s %s.\nProof. cert_tac. Qed.\n",
					ncert, ncert, w.terms[len(w.terms)-1], ncert, ncert, realLit(ev), realLit(1e-12))
				certMeta = append(certMeta, map[string]interface{}{"cert": ncert, "case_idx": w.n() - 1, "go_value": ev, "names": names, "seqs": seqs, "site": site, "removegaps": rg})
				ncert++
				if ncert%10 == 0 {
					flushCerts()
				}
			}
			// goalign compute entropy -a [-g]: the mean of the defined site entropies
			if bin := os.Getenv("VERIF_GOALIGN_BIN"); bin != "" && x.class == OutOk && r.Intn(3) == 0 {
				okIn := len(names) > 0
				for k := range names {
					if len(seqs[k]) == 0 || strings.ContainsAny(seqs[k], " \t>\r\n\x00") || strings.ContainsAny(names[k], " \t>\r\n\x00") || names[k] == "" {
						okIn = false
					}
				}
				if !okIn {
					// nothing to run (and no directory to leave behind)
				} else if tmpd, e := os.MkdirTemp("", "c14cli"); e == nil {
					inf := filepath.Join(tmpd, "in.fa")
					var b strings.Builder
					for k := range names {
						fmt.Fprintf(&b, ">%s\n%s\n", names[k], seqs[k])
					}
					os.WriteFile(inf, []byte(b.String()), 0644)
					sum, cnt := 0.0, 0
					for i := 0; i < a.Length(); i++ {
						if v, e := a.Entropy(i, rg); e == nil && !math.IsNaN(v) {
							sum += v
							cnt++
						}
					}
					args := []string{"compute", "entropy", "-a", "-i", inf}
					if rg {
						args = append(args, "-g")
					}
					cmd := exec.Command(bin, args...)
					var stdout bytes.Buffer
					cmd.Stdout = &stdout
					agree := true
					if cmd.Run() == nil {
						want := fmt.Sprintf("0\t%.3f\n", sum/float64(cnt))
						agree = strings.HasSuffix(stdout.String(), want)
					}
					os.RemoveAll(tmpd)
					add(alpha, names, seqs, "cli:compute entropy -a", "OpCli "+coqStr("goalign compute entropy -a prints the mean of the defined site entropies"), res{class: OutOk, flag: agree})
				}
			}
		case 8:
			x.class, _ = guarded(5e9, func() error { x.num = fmt.Sprint(a.NbVariableSites()); return nil })
			add(alpha, names, seqs, "NbVariableSites", "OpVariable", x)
		case 9:
			x.class, _ = guarded(5e9, func() error { x.l1 = intsOf(a.InformativeSites()); return nil })
			add(alpha, names, seqs, "InformativeSites", "OpInformative", x)
		case 10:
			x.class, _ = guarded(5e9, func() error {
				v := a.AvgAllelesPerSite()
				if math.IsNaN(v) || math.IsInf(v, 0) {
					x.flag = true
				} else {
					n, e := floatDyadic(v)
					x.num, x.den = n.String(), e
				}
				return nil
			})
			add(alpha, names, seqs, "AvgAllelesPerSite", "OpAvgAlleles", x)
		case 11:
			x.class, _ = guarded(5e9, func() error {
				all, diffs := a.CountDifferences()
				it := []string{}
				for _, k := range all {
					it = append(it, fmt.Sprintf("(%s, %s)", coqByte(k[0]), coqByte(k[1])))
				}
				x.pairs = coqList(it)
				dl := []string{}
				for _, d := range diffs {
					ks := []string{}
					for k := range d {
						ks = append(ks, k)
					}
					sort.Strings(ks)
					e := []string{}
					for _, k := range ks {
						e = append(e, fmt.Sprintf("((%s, %s), %s)", coqByte(k[0]), coqByte(k[1]), coqZ(d[k])))
					}
					dl = append(dl, coqList(e))
				}
				x.diffs = coqList(dl)
				return nil
			})
			add(alpha, names, seqs, "CountDifferences", "OpCountDiff", x)
		case 12:
			x.class, _ = guarded(5e9, func() error { u, _, _, e := a.NumGapsUniquePerSequence(nil); x.l1 = intsOf(u); return e })
			add(alpha, names, seqs, "NumGapsUniquePerSequence", "OpGapsUnique", x)
		case 13:
			x.class, _ = guarded(5e9, func() error { u, _, _, e := a.NumMutationsUniquePerSequence(nil); x.l1 = intsOf(u); return e })
			add(alpha, names, seqs, "NumMutationsUniquePerSequence", "OpMutUnique", x)
		case 15, 16: // the same counters against a count profile built from another alignment of the same length
			pn := 1 + r.Intn(4)
			pnames := distinctNames(r, pn)
			pseqs := make([]string, pn)
			for k := range pseqs {
				b := make([]byte, L)
				for j := range b {
					if r.Intn(3) == 0 && nseq > 0 {
						b[j] = seqs[r.Intn(nseq)][j]
					} else {
						b[j] = letters[r.Intn(len(letters))]
					}
				}
				pseqs[k] = string(b)
			}
			pa, e := mkAlign(alpha, pnames, pseqs)
			if e != nil || L == 0 || nseq == 0 {
				continue
			}
			prof := align.NewCountProfileFromAlignment(pa)
			x.rowsN, x.rowsS = pnames, pseqs
			both := []int{}
			x.class, _ = guarded(5e9, func() error {
				var u, nw, bo []int
				var e error
				if kind == 15 {
					u, nw, bo, e = a.NumGapsUniquePerSequence(prof)
				} else {
					u, nw, bo, e = a.NumMutationsUniquePerSequence(prof)
				}
				x.l1, x.l2, both = intsOf(u), intsOf(nw), intsOf(bo)
				return e
			})
			kv := []string{}
			for _, v := range both {
				kv = append(kv, fmt.Sprintf("(x00, %s)", coqZ(v)))
			}
			x.kv = coqList(kv)
			if kind == 15 {
				add(alpha, names, seqs, "NumGapsUniquePerSequence(profile)", "OpGapsProfile", x)
			} else {
				add(alpha, names, seqs, "NumMutationsUniquePerSequence(profile)", "OpMutProfile", x)
			}
		case 14:
			if nseq < 1 {
				continue
			}
			ri, si := r.Intn(nseq), r.Intn(nseq)
			x.class, _ = guarded(5e9, func() error {
				ref, _ := a.Sequence(ri)
				s, _ := a.Sequence(si)
				n, e := s.NumMutationsComparedToReferenceSequence(alpha, ref)
				x.num = fmt.Sprint(n)
				return e
			})
			if x.class != OutOk {
				x.num = "0"
			}
			add(alpha, names, seqs, "NumMutationsComparedToReferenceSequence", fmt.Sprintf("OpMutVsRef %s %s", coqZ(ri), coqZ(si)), x)
		case 19, 20:
			// position-specific scoring matrix: all normalisations, log, dyadic pseudo counts
			if nseq == 0 || L == 0 {
				continue
			}
			if alpha == align.UNKNOWN {
				alpha = align.NUCLEOTIDS
				if a, e = mkAlign(alpha, names, seqs); e != nil {
					continue
				}
			}
			if r.Intn(2) == 0 {
				// taller columns over the alphabet's own characters
				nseq = 4 + r.Intn(12)
				names = distinctNames(r, nseq)
				seqs = make([]string, nseq)
				pool := "ACGTacgtN-"
				if alpha == align.AMINOACIDS {
					pool = "ARNDCQEGHILKMFPSTWYVX-a"
				}
				pool = pool[:2+r.Intn(len(pool)-1)]
				for k := range seqs {
					seqs[k] = randSeq(r, L, func(r *rand.Rand) byte { return pool[r.Intn(len(pool))] })
				}
				if a, e = mkAlign(alpha, names, seqs); e != nil {
					continue
				}
			}
			lg := r.Intn(3) == 0
			pcs := []struct {
				f float64
				q string
			}{{0, "(0 # 1)"}, {0.5, "(1 # 2)"}, {1, "(1 # 1)"}, {0.25, "(1 # 4)"}, {0, "(0 # 1)"}}
			pc := pcs[r.Intn(len(pcs))]
			norm := r.Intn(5)
			if r.Intn(25) == 0 {
				norm = []int{-1, 5, 7}[r.Intn(3)]
			}
			chars := "ACGT"
			if alpha == align.AMINOACIDS {
				chars = "ARNDCQEGHILKMFPSTWYV"
			}
			var mat map[uint8][]float64
			agree := 1
			nnan := 0
			x.class, _ = guarded(5e9, func() error {
				m, e := a.Pssm(lg, pc.f, norm)
				if e != nil {
					return e
				}
				mat = m
				for rep := 0; rep < 20; rep++ {
					m2, e2 := a.Pssm(lg, pc.f, norm)
					if e2 != nil {
						agree = 0
						continue
					}
					for _, c := range []byte(chars) {
						for j := range m[c] {
							if math.Float64bits(m[c][j]) != math.Float64bits(m2[c][j]) {
								agree = 0
							}
						}
					}
				}
				for _, c := range []byte(chars) {
					for _, v := range m[c] {
						if math.IsNaN(v) {
							nnan++
						}
					}
				}
				return nil
			})
			if x.class == OutOk {
				x.l1 = []int{agree}
				x.num = fmt.Sprint(nnan)
			}
			opterm := fmt.Sprintf("OpPssm %s %s%%Q %s", coqBool(lg), pc.q, coqZ(norm))
			add(alpha, names, seqs, "Pssm", opterm, x)
			if x.class == OutOk && ncert < maxcert {
				// certify two finite entries against the real-valued definition
				for t := 0; t < 2; t++ {
					c := chars[r.Intn(len(chars))]
					j := r.Intn(L)
					v := mat[c][j]
					if math.IsNaN(v) || math.IsInf(v, 0) {
						continue
					}
					fmt.Fprintf(&certs, "(* CERT %d *)\nDefinition case_%d : case := %s.\nLemma cert_%d : cert_pssm case_%d %s %d %s %s.\nProof. cert_pssm_tac. Qed.\n",
						ncert, ncert, w.terms[len(w.terms)-1], ncert, ncert, coqByte(c), j, realLit(v), realLit(1e-9*(1+math.Abs(v))))
					certMeta = append(certMeta, map[string]interface{}{"cert": ncert, "case_idx": w.n() - 1, "go_value": v, "names": names, "seqs": seqs,
						"char": string(c), "site": j, "log": lg, "pseudocount": pc.f, "normalization": norm})
					ncert++
					if ncert%10 == 0 {
						flushCerts()
					}
				}
			}
		case 17, 18:
			// lists of mutations relative to a reference holding several gap runs (several insertions)
			if nseq < 1 {
				continue
			}
			ri, si := r.Intn(nseq), r.Intn(nseq)
			if L >= 3 && r.Intn(3) > 0 {
				// rebuild the two rows: reference with gap runs, the other row mostly filled
				pool := "ACGTRYN-"
				if alpha != align.NUCLEOTIDS {
					pool = "ARNDX-LK"
				}
				rb, sb := []byte(seqs[ri]), []byte(seqs[si])
				for j := 0; j < L; j++ {
					if r.Intn(5) < 2 {
						rb[j] = '-'
					} else {
						rb[j] = pool[r.Intn(len(pool)-1)]
					}
				}
				if si != ri {
					for j := 0; j < L; j++ {
						sb[j] = pool[r.Intn(len(pool))]
						if r.Intn(8) == 0 {
							sb[j] = rb[j]
						}
					}
				} else {
					sb = rb
				}
				seqs[ri], seqs[si] = string(rb), string(sb)
				if a, e = mkAlign(alpha, names, seqs); e != nil {
					continue
				}
			}
			x.class, _ = guarded(5e9, func() error {
				ref, _ := a.Sequence(ri)
				s, _ := a.Sequence(si)
				muts, e := s.ListMutationsComparedToReferenceSequence(alpha, ref, false)
				if e != nil {
					return e
				}
				// a second call must agree (and must not disturb the first answer)
				muts2, e2 := s.ListMutationsComparedToReferenceSequence(alpha, ref, false)
				if e2 != nil {
					return e2
				}
				x.flag = len(muts) == len(muts2)
				var sb strings.Builder
				sb.WriteString("[")
				for mi, m := range muts {
					if mi > 0 {
						sb.WriteString("; ")
					}
					sb.WriteString("[")
					for k, c := range m.Alt {
						if k > 0 {
							sb.WriteString("; ")
						}
						fmt.Fprintf(&sb, "(%s, %s, %s)", coqByte(m.Ref), coqByte(c), coqZ(m.Pos))
					}
					sb.WriteString("]")
				}
				sb.WriteString("]")
				x.diffs = sb.String()
				return nil
			})
			add(alpha, names, seqs, "ListMutationsComparedToReferenceSequence", fmt.Sprintf("OpMutList %s %s", coqZ(ri), coqZ(si)), x)
			// the count on the same pair of rows
			y := res{l1: []int{}, l2: []int{}, rowsN: []string{}, rowsS: []string{}}
			y.class, _ = guarded(5e9, func() error {
				ref, _ := a.Sequence(ri)
				s, _ := a.Sequence(si)
				n, e := s.NumMutationsComparedToReferenceSequence(alpha, ref)
				y.num = fmt.Sprint(n)
				return e
			})
			if y.class != OutOk {
				y.num = "0"
			}
			add(alpha, names, seqs, "NumMutationsComparedToReferenceSequence", fmt.Sprintf("OpMutVsRef %s %s", coqZ(ri), coqZ(si)), y)
		}
	}
	// EqualOrCompatible on all code pairs 0..16
	for aa := 0; aa <= 16; aa++ {
		for bb := 0; bb <= 16; bb++ {
			x := res{l1: []int{}, l2: []int{}, rowsN: []string{}, rowsS: []string{}}
			x.class, _ = guarded(5e9, func() error { ok, e := align.EqualOrCompatible(uint8(aa), uint8(bb)); x.flag = ok; return e })
			add(align.NUCLEOTIDS, []string{}, []string{}, "EqualOrCompatible", fmt.Sprintf("OpCompat %s %s", coqZ(aa), coqZ(bb)), x)
		}
	}
	if g.only >= 0 {
		w.terms = w.terms[g.only : g.only+1]
		w.meta = w.meta[g.only : g.only+1]
	}
	flushCerts()
	var cm bytes.Buffer
	for _, m := range certMeta {
		b, _ := jsonMarshal(m)
		cm.Write(b)
		cm.WriteByte('\n')
	}
	os.WriteFile(g.out+"_certs.jsonl", cm.Bytes(), 0644)
	stats["certificates"] = ncert
	if err := w.flush(g.out, "C14", g.per); err != nil {
		return err
	}
	writeStats(g.out, stats)
	return nil
}
