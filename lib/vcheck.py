"""Orchestrator of the goalign verification checks (see DESIGN.md section 2).

Decision rule of every check:
  1. rebuild the harness and the generated tables from /repo's working tree,
     `make` the property's Props/Cxx.vo (theorems) and Corr/Cxx.vo (oracles);
  2. run the harness: it drives the real packages on generated cases and
     writes them, with the observed results, as Coq case files;
  3. evaluate in the kernel (vm_compute), per case, [model_ok] (the hand-written
     model reproduces what the implementation did) and [spec_ok] (what the
     implementation did satisfies the property);
  4. a case with spec_ok = false is a failing input -> VIOLATION with replay
     (unless listed in known_findings.json -> KNOWN-FINDING);
     a broken proof or a model/impl disagreement without a failing input is
     still a VIOLATION, ending in no-failing-input-found.
"""
import fcntl
import hashlib
import json, shutil
import os
import re
import subprocess
import sys
import time
from concurrent.futures import ThreadPoolExecutor

ROOT = os.path.dirname(os.path.dirname(os.path.abspath(__file__)))
COQ = os.path.join(ROOT, "coq")
HARNESS_SRC = os.path.join(ROOT, "harness")
BUILD = os.path.join(ROOT, ".build")
HARNESS_BIN = os.path.join(BUILD, "harness")
EVID = os.path.join(ROOT, "evidence")
REPLAYS = os.path.join(ROOT, "replays")
LOGS = os.path.join(ROOT, "logs")
REPO = os.environ.get("VERIF_REPO", "/repo")

sys.path.insert(0, os.path.dirname(os.path.abspath(__file__)))
import props as PROPS  # noqa: E402

ALLOWED_AXIOMS = {
    # axioms declared by Coq's standard library (Reals, classical logic, funext)
    "ClassicalDedekindReals.sig_forall_dec",
    "ClassicalDedekindReals.sig_not_dec",
    "FunctionalExtensionality.functional_extensionality_dep",
    "Classical_Prop.classic",
    "Eqdep.Eq_rect_eq.eq_rect_eq",
    "ProofIrrelevance.proof_irrelevance",
    "JMeq.JMeq_eq",
}

FORBIDDEN = re.compile(
    r"\b(Admitted|admit|Axiom|Axioms|Parameter|Parameters|Conjecture|Conjectures|"
    r"Unset\s+Guard\s+Checking|Unset\s+Positivity\s+Checking|Unset\s+Universe\s+Checking|"
    r"bypass_check|Admit\s+Obligations|native_compute|type-in-type|impredicative-set)\b")


def goenv():
    e = dict(os.environ)
    e.update({"GOFLAGS": "-mod=mod", "GOPROXY": "off", "GOSUMDB": "off", "GOTOOLCHAIN": "local",
              "CGO_ENABLED": "0"})
    return e


def run(cmd, cwd=None, env=None, timeout=None, stdin=None):
    p = subprocess.run(cmd, cwd=cwd, env=env, stdout=subprocess.PIPE, stderr=subprocess.STDOUT,
                       timeout=timeout, input=stdin)
    return p.returncode, p.stdout.decode("utf-8", "replace")


class Lock:
    def __init__(self, path):
        self.path = path

    def __enter__(self):
        os.makedirs(os.path.dirname(self.path), exist_ok=True)
        self.f = open(self.path, "w")
        fcntl.flock(self.f, fcntl.LOCK_EX)
        return self

    def __exit__(self, *a):
        fcntl.flock(self.f, fcntl.LOCK_UN)
        self.f.close()


def log(msg):
    print("[check] " + msg, flush=True)


# ---------------------------------------------------------------------------
# build steps
# ---------------------------------------------------------------------------

def build_harness():
    """go build of the harness against /repo's working tree with the verif tag."""
    os.makedirs(BUILD, exist_ok=True)
    gosum_src = os.path.join(REPO, "go.sum")
    if os.path.exists(gosum_src):
        with open(gosum_src, "rb") as f:
            data = f.read()
        dst = os.path.join(HARNESS_SRC, "go.sum")
        old = open(dst, "rb").read() if os.path.exists(dst) else None
        if old != data:
            with open(dst, "wb") as f:
                f.write(data)
    gomod = os.path.join(HARNESS_SRC, "go.mod")
    txt = open(gomod).read()
    want = "replace github.com/evolbioinfo/goalign => %s" % REPO
    new = re.sub(r"replace github.com/evolbioinfo/goalign => \S+", want, txt)
    if new != txt:
        open(gomod, "w").write(new)
    rc, out = run(["go", "build", "-tags", "verif", "-o", HARNESS_BIN, "."], cwd=HARNESS_SRC, env=goenv(),
                  timeout=900)
    return rc, out


CLI_BIN = os.path.join(BUILD, "goalign")


def build_cli():
    """go build of the goalign command line from /repo's working tree (no build tag)."""
    return run(["go", "build", "-o", CLI_BIN, "."], cwd=REPO, env=goenv(), timeout=900)


def gentables():
    return run([HARNESS_BIN, "gentables", os.path.join(COQ, "Gen")], timeout=300)


def coq_makefile():
    mk = os.path.join(COQ, "Makefile")
    cp = os.path.join(COQ, "_CoqProject")
    if (not os.path.exists(mk)) or os.path.getmtime(mk) < os.path.getmtime(cp):
        rc, out = run(["coq_makefile", "-f", "_CoqProject", "-o", "Makefile"], cwd=COQ)
        if rc != 0:
            raise RuntimeError("coq_makefile failed: " + out)


def make(targets, timeout=3000):
    coq_makefile()
    cmd = ["make", "-j16", "-k"] + targets
    rc, out = run(cmd, cwd=COQ, timeout=timeout)
    return rc, out


def coqc(vfile, timeout=1800):
    """compile one file of the development (path relative to coq/), return (rc, output)"""
    return run(["coqc", "-Q", ".", "GA", "-w", "-notation-overridden,-deprecated-hint-without-locality,"
                "-deprecated-instance-without-locality", vfile], cwd=COQ, timeout=timeout)


def prepare(targets):
    """steps 1 of the decision rule; returns (ok, log_text, failed_files)"""
    with Lock(os.path.join(COQ, ".lock")):
        rc, out = build_harness()
        if rc != 0:
            return None, "harness build failed:\n" + out, []
        rc, out2 = gentables()
        if rc != 0:
            return None, "gentables failed:\n" + out2, []
        rc, out3 = make(targets)
        failed = re.findall(r'File "\./([^"]+)", line (\d+)', out3) if rc != 0 else []
        return rc == 0, out3, failed


# ---------------------------------------------------------------------------
# theorem inventory and assumptions
# ---------------------------------------------------------------------------

THEOREM_RE = re.compile(r"^\s*(Theorem|Lemma|Corollary|Example)\s+([A-Za-z0-9_']+)", re.M)


def theorems_of(props_file):
    txt = open(os.path.join(COQ, props_file)).read()
    txt = re.sub(r"\(\*.*?\*\)", "", txt, flags=re.S)
    return [m.group(2) for m in THEOREM_RE.finditer(txt)]


def parse_assumptions(output):
    """Parse the output of the `Print Assumptions` commands of a Props file:
    returns list of axiom-lists in order of appearance."""
    res = []
    lines = output.splitlines()
    i = 0
    while i < len(lines):
        ln = lines[i]
        if ln.startswith("Closed under the global context"):
            res.append([])
        elif ln.startswith("Axioms:"):
            ax = []
            i += 1
            while i < len(lines) and (lines[i].startswith(" ") or re.match(r"^[A-Za-z_][\w.']*\s*$", lines[i])
                                      or re.match(r"^[A-Za-z_][\w.']*\s+:", lines[i])):
                m = re.match(r"^([A-Za-z_][\w.']*)\s*(:|$)", lines[i])
                if m:
                    ax.append(m.group(1))
                i += 1
            res.append(ax)
            continue
        i += 1
    return res


def check_props_file(prop):
    """Compile Props/<prop>.v on its own (dependencies are built) and collect
    theorem names and their assumptions.  Returns dict."""
    pf = "Props/%s.v" % prop
    names = theorems_of(pf)
    t0 = time.time()
    vo = os.path.join(COQ, "Props/%s.vo" % prop)
    cache = os.path.join(COQ, "Props/.%s.assumptions" % prop)
    if os.path.exists(cache) and os.path.exists(vo) and os.path.getmtime(cache) >= os.path.getmtime(vo):
        rc, out = 0, open(cache).read()
    else:
        rc, out = coqc(pf)
        if rc == 0:
            with open(cache, "w") as f:
                f.write(out)
    info = {"file": pf, "theorems": names, "rc": rc, "wall_s": round(time.time() - t0, 1), "axioms": {},
            "bad_axioms": [], "output_tail": out[-3000:] if rc != 0 else ""}
    if rc == 0:
        ass = parse_assumptions(out)
        allax = set()
        for a in ass:
            allax.update(a)
        info["assumption_blocks"] = len(ass)
        info["axioms_used"] = sorted(allax)
        info["bad_axioms"] = sorted(a for a in allax if a not in ALLOWED_AXIOMS
                                    and not a.startswith("PrimFloat.") and not a.startswith("PrimInt63.")
                                    and not a.startswith("Uint63.") and not a.startswith("Float"))
    return info


def audit_sources():
    """forbidden vernacular anywhere in the hand-written development"""
    bad = []
    for d, _, fs in os.walk(COQ):
        if os.path.basename(d) in ("Cases",):
            continue
        for f in fs:
            if not f.endswith(".v"):
                continue
            p = os.path.join(d, f)
            txt = open(p, errors="replace").read()
            code = re.sub(r"\(\*.*?\*\)", "", txt, flags=re.S)
            for m in FORBIDDEN.finditer(code):
                bad.append("%s: %s" % (os.path.relpath(p, ROOT), m.group(0)))
    return bad


# ---------------------------------------------------------------------------
# correspondence
# ---------------------------------------------------------------------------

VERDICT_ITEM = re.compile(r"\(\s*(\d+)(?:%nat)?\s*,\s*\(\s*(true|false)\s*,\s*(true|false)\s*\)\s*\)")


def compile_shard(vfile):
    t0 = time.time()
    try:
        rc, out = run(["coqc", "-Q", ".", "GA", "-w", "-notation-overridden", vfile], cwd=COQ, timeout=3000)
    except subprocess.TimeoutExpired:
        return vfile, 124, "timeout", [], time.time() - t0
    fails = []
    if rc == 0:
        m = re.search(r"verdict\s*=\s*(.*?)\s*:\s*list", out, flags=re.S)
        if not m:
            return vfile, 99, "no verdict in output:\n" + out[-2000:], [], time.time() - t0
        body = m.group(1)
        offset = 0
        try:
            ms = re.search(r"\(\* START (\d+) \*\)", open(os.path.join(COQ, vfile)).read())
            if ms:
                offset = int(ms.group(1))
        except OSError:
            pass
        for it in VERDICT_ITEM.finditer(body):
            fails.append((offset + int(it.group(1)), it.group(2) == "true", it.group(3) == "true"))
        if not fails and re.sub(r"\s", "", body) != "[]":
            return vfile, 98, "verdict not understood:\n" + body[:2000], [], time.time() - t0
        mj = re.search(r"judged\s*=\s*(\d+)", out)
        if mj:
            out = "JUDGED=%s" % mj.group(1)
    return vfile, rc, out, fails, time.time() - t0


def run_harness(sub, seed, n, tier, extra=None, only=None, timeout=3000):
    casedir = os.path.join(COQ, "Cases")
    os.makedirs(casedir, exist_ok=True)
    prefix = os.path.join(casedir, sub.upper())
    for f in os.listdir(casedir):
        if re.match(r"^%s(_(cert_)?\d+\.(v|vo|vos|vok|glob)|\.jsonl|_certs\.jsonl|\.stats\.json)$" % re.escape(sub.upper()), f) or \
           re.match(r"^\.%s_(cert_)?\d+\.aux$" % re.escape(sub.upper()), f):
            os.remove(os.path.join(casedir, f))
    cmd = [HARNESS_BIN, sub, "-seed", str(seed), "-n", str(n), "-tier", tier, "-out", prefix]
    if only is not None:
        cmd += ["-only", str(only)]
    if extra:
        cmd += extra
    env = dict(os.environ)
    env["VERIF_HARNESS_BIN"] = HARNESS_BIN
    if sub in ("c11", "c04", "c09", "c06", "c13", "c14", "c15", "c16"):
        rc0, out0 = build_cli()
        if rc0 != 0:
            return rc0, "goalign build failed:\n" + out0, prefix, []
        env["VERIF_GOALIGN_BIN"] = CLI_BIN
    rc, out = run(cmd, timeout=timeout, env=env)
    shards = sorted([f for f in os.listdir(casedir) if re.match(r"^%s_\d+\.v$" % re.escape(sub.upper()), f)],
                    key=lambda s: int(re.findall(r"_(\d+)\.v$", s)[0]))
    return rc, out, prefix, ["Cases/" + s for s in shards]


def load_jsonl(path):
    res = []
    if os.path.exists(path):
        for ln in open(path):
            ln = ln.strip()
            if ln:
                res.append(json.loads(ln))
    return res


# ---------------------------------------------------------------------------
# known findings
# ---------------------------------------------------------------------------

def load_known():
    p = os.path.join(ROOT, "known_findings.json")
    if not os.path.exists(p):
        return []
    return json.load(open(p)).get("findings", [])


def finding_matches(entry, prop, case):
    if entry.get("kind") != "known" or entry.get("property") != prop:
        return False
    m = entry.get("match", {})
    for k, pat in m.items():
        v = case.get(k)
        if v is None:
            return False
        s = v if isinstance(v, str) else json.dumps(v, sort_keys=True)
        if not re.search(pat, s):
            return False
    return True


# ---------------------------------------------------------------------------
# the check
# ---------------------------------------------------------------------------

def write_replay(prop, payload):
    os.makedirs(REPLAYS, exist_ok=True)
    h = hashlib.sha1(json.dumps(payload, sort_keys=True).encode()).hexdigest()[:12]
    p = os.path.join(REPLAYS, "%s-%s.json" % (prop, h))
    with open(p, "w") as f:
        json.dump(payload, f, indent=1, sort_keys=True)
    return p


def case_size(c):
    return len(json.dumps(c))


def check(prop, tier, seed, replay=None):
    t0 = time.time()
    cfg = PROPS.PROPS[prop]
    os.makedirs(EVID, exist_ok=True)
    os.makedirs(LOGS, exist_ok=True)
    violations = []     # (line_suffix, replay_path)
    known_lines = []
    notes = []
    targets = ["Props/%s.vo" % prop] + ["Corr/%s.vo" % c for c in cfg.get("corr", [prop])] + \
        cfg.get("extra_targets", [])

    ok, mlog, failed = prepare(targets)
    with open(os.path.join(LOGS, "%s.make.log" % prop), "w") as f:
        f.write(mlog)
    if ok is None:
        log("infrastructure error: " + mlog[-3000:])
        return 2
    # -- theorems -------------------------------------------------------------
    pinfo = {"theorems": theorems_of("Props/%s.v" % prop), "axioms_used": [], "bad_axioms": []}
    proof_broken = None
    corr_built = all(os.path.exists(os.path.join(COQ, "Corr/%s.vo" % c)) and
                     os.path.getmtime(os.path.join(COQ, "Corr/%s.vo" % c)) >=
                     os.path.getmtime(os.path.join(COQ, "Corr/%s.v" % c)) for c in cfg.get("corr", [prop]))
    if not ok:
        errs = re.findall(r'(File "\./[^"]+", line \d+, characters [\d-]+:\nError:.*?)(?=\nmake|\nFile|\Z)', mlog,
                          flags=re.S)
        proof_broken = {"failed_files": sorted(set(f for f, _ in failed)), "errors": [e[:1500] for e in errs[:5]]}
        log("Coq build failed in: %s" % ", ".join(proof_broken["failed_files"]))
        # is Corr itself (models / oracles) broken?  then the correspondence cannot run.
        if not corr_built or any(f.startswith(("Corr/", "Model/", "Spec/", "Base/", "Gen/")) for f, _ in failed):
            rc2, _ = make(["Corr/%s.vo" % c for c in cfg.get("corr", [prop])])
            corr_built = rc2 == 0
    else:
        pinfo = check_props_file(prop)
        if pinfo["rc"] != 0:
            proof_broken = {"failed_files": ["Props/%s.v" % prop], "errors": [pinfo["output_tail"]]}
        elif pinfo["bad_axioms"]:
            proof_broken = {"failed_files": ["Props/%s.v" % prop],
                            "errors": ["axioms outside the allow-list: %s" % pinfo["bad_axioms"]]}
    bad_vernac = audit_sources()
    if bad_vernac:
        proof_broken = proof_broken or {"failed_files": [], "errors": []}
        proof_broken["errors"].append("forbidden vernacular: %s" % bad_vernac[:10])

    # -- correspondence ---------------------------------------------------------
    cases_total = 0
    fails_model = []
    fails_spec = []
    metas_all = []
    stats_all = {}
    shard_times = []
    kernel_cmds = []
    corr_error = None
    nontrivial_keys = set()
    samples = []
    judged_total = 0
    certs_total = 0
    certs_ok = 0
    if corr_built:
        for sub in cfg["harness"]:
            n = sub["n"][tier]
            extra = list(sub.get("extra", []))
            only = None
            sd = seed
            if replay is not None:
                rp = json.load(open(replay))
                if rp.get("harness") and rp["harness"] != sub["cmd"]:
                    continue
                sd = rp.get("seed", seed)
                n = rp.get("n", n)
                only = rp.get("idx")
                if rp.get("tier"):
                    tier_h = rp["tier"]
                else:
                    tier_h = tier
            else:
                tier_h = tier
            rc, out, prefix, shards = run_harness(sub["cmd"], sd, n, tier_h, extra, only,
                                                  timeout=sub.get("timeout", 3000))
            if rc != 0:
                corr_error = "harness %s failed (rc=%d): %s" % (sub["cmd"], rc, out[-2000:])
                log(corr_error)
                break
            metas = load_jsonl(prefix + ".jsonl")
            for m in metas:
                m["harness"] = sub["cmd"]
                m["seed"] = sd
                m["n"] = n
                m["tier"] = tier_h
            st = {}
            if os.path.exists(prefix + ".stats.json"):
                st = json.load(open(prefix + ".stats.json"))
            stats_all[sub["cmd"]] = st
            with ThreadPoolExecutor(max_workers=16) as ex:
                results = list(ex.map(compile_shard, shards))
            for vfile, rc, out, fails, dt in results:
                if rc == 0 and out.startswith("JUDGED="):
                    judged_total += int(out[7:])
                shard_times.append(round(dt, 1))
                kernel_cmds.append("coqc -Q . GA " + vfile)
                if rc != 0:
                    corr_error = "case file %s did not evaluate (rc=%d): %s" % (vfile, rc, out[-1500:])
                    log(corr_error)
                    continue
                for idx, m_ok, s_ok in fails:
                    c = metas[idx] if idx < len(metas) else {"idx": idx}
                    if not s_ok:
                        fails_spec.append(c)
                    elif not m_ok:
                        fails_model.append(c)
            # kernel-checked numeric certificates emitted by the harness (interval tactic)
            casedir = os.path.join(COQ, "Cases")
            certfiles = sorted(f for f in os.listdir(casedir) if re.match(r"^%s_cert_\d+\.v$" % re.escape(sub["cmd"].upper()), f))
            if certfiles:
                cmetas = load_jsonl(prefix + "_certs.jsonl")
                with ThreadPoolExecutor(max_workers=8) as ex:
                    cres = list(ex.map(lambda f: (f,) + run(["coqc", "-Q", ".", "GA", "-w", "-notation-overridden", "Cases/" + f], cwd=COQ, timeout=3000), certfiles))
                for f, rc, out in cres:
                    ids = [int(x) for x in re.findall(r"\(\* CERT (\d+) \*\)", open(os.path.join(casedir, f)).read())]
                    certs_total += len(ids)
                    if rc == 0:
                        certs_ok += len(ids)
                        continue
                    mline = re.search(r'line (\d+), characters', out)
                    bad = None
                    if mline:
                        ln = int(mline.group(1))
                        txt = open(os.path.join(casedir, f)).read().splitlines()
                        for k in range(min(ln, len(txt)) - 1, -1, -1):
                            mm = re.match(r"\(\* CERT (\d+) \*\)", txt[k])
                            if mm:
                                bad = int(mm.group(1))
                                break
                    certs_ok += len([i for i in ids if bad is not None and i < bad])
                    cm = next((m for m in cmetas if m.get("cert") == bad), {"cert": bad})
                    cm = dict(cm)
                    cm.update({"op": "certificate", "harness": sub["cmd"], "seed": sd, "n": n, "tier": tier_h,
                               "idx": cm.get("case_idx"), "coq_error": out[-600:],
                               "what": "the interval tactic cannot prove that the value returned by the implementation is within "
                                       "tolerance of the modelled closed form evaluated on this pair"})
                    fails_spec.append(cm)
            cases_total += len(metas)
            nt = cfg.get("nontrivial")
            for m in metas:
                if nt is None or nt(m):
                    key = hashlib.sha1(json.dumps({k: v for k, v in m.items()
                                                   if k not in ("idx", "seed", "n", "tier")},
                                                  sort_keys=True).encode()).hexdigest()
                    nontrivial_keys.add(key)
            step = max(1, len(metas) // 4)
            samples += [{k: v for k, v in m.items() if k not in ("seed", "n", "tier")} for m in metas[::step][:4]]
            metas_all += metas
    else:
        corr_error = "Corr/%s.vo could not be built: the model or its oracles no longer compile" % prop

    # -- extra per-property step (certificates etc.) ------------------------------
    extra_info = {}
    if cfg.get("extra_step") and corr_built:
        try:
            extra_info = cfg["extra_step"](sys.modules[__name__], prop, tier, seed) or {}
            for v in extra_info.get("spec_failures", []):
                fails_spec.append(v)
            for v in extra_info.get("model_failures", []):
                fails_model.append(v)
        except Exception as e:  # infrastructure
            corr_error = (corr_error or "") + " extra step failed: %r" % (e,)

    # -- race detector stage (concurrency properties) ------------------------------
    race_info = None
    if cfg.get("race") and corr_built and not replay and (fails_spec or fails_model):
        # a failing input is already at hand: the (slow) race-detector run would add nothing to the verdict
        race_info = {"skipped": "a failing input was already found by the main stage"}
    elif cfg.get("race") and corr_built and not replay:
        rc_cfg = cfg["race"]
        race_bin = os.path.join(BUILD, "harness-race")
        renv = goenv()
        renv["CGO_ENABLED"] = "1"
        rcb, outb = run(["go", "build", "-race", "-tags", "verif", "-o", race_bin, "."], cwd=HARNESS_SRC, env=renv, timeout=1800)
        if rcb != 0 and re.search(r"requires cgo|C compiler|gcc|exec: \"", outb):
            # no C toolchain in this environment: the stage cannot run (recorded, not an alarm)
            race_info = {"skipped": "race-detector build unavailable: " + outb[-300:]}
        elif rcb != 0:
            corr_error = (corr_error or "") + " race-detector build of the harness failed: " + outb[-800:]
        else:
            rdir = os.path.join(BUILD, "race-" + prop)
            shutil.rmtree(rdir, ignore_errors=True)
            os.makedirs(rdir, exist_ok=True)
            nr = rc_cfg["n"][tier if tier in rc_cfg["n"] else "quick"]
            env = dict(os.environ)
            env["GORACE"] = "halt_on_error=0"
            rcr, outr = run([race_bin, rc_cfg["cmd"], "-seed", str(seed), "-n", str(nr), "-tier", tier, "-per", "100000",
                             "-out", os.path.join(rdir, "R")], timeout=1800, env=env)
            nraces = outr.count("WARNING: DATA RACE")
            race_info = {"cmd": "go build -race ... && harness-race %s -n %d" % (rc_cfg["cmd"], nr), "races_reported": nraces, "rc": rcr}
            shutil.rmtree(rdir, ignore_errors=True)
            if nraces > 0 or rcr not in (0,):
                i0 = outr.find("WARNING: DATA RACE")
                corr_error = (corr_error or "") + " the Go race detector reported %d data race(s) while the harness drove the real code (rc=%d): %s" % (
                    nraces, rcr, outr[i0:i0 + 1500] if i0 >= 0 else outr[-800:])
                log(corr_error)

    # -- decide ---------------------------------------------------------------
    known = load_known()
    reported_known = set()
    unknown_spec = []
    for c in sorted(fails_spec, key=case_size):
        hit = None
        for e in known:
            if finding_matches(e, prop, c):
                hit = e
                break
        if hit:
            if hit["id"] not in reported_known:
                reported_known.add(hit["id"])
                known_lines.append("KNOWN-FINDING: property=%s %s (%s)" % (prop, hit["id"], hit["description"]))
        else:
            unknown_spec.append(c)
    unknown_model = []
    for c in sorted(fails_model, key=case_size):
        if any(finding_matches(e, prop, c) for e in known):
            continue
        unknown_model.append(c)

    if unknown_spec:
        c = unknown_spec[0]
        rp = write_replay(prop, {"property": prop, "kind": "failing-input", "harness": c.get("harness"),
                                 "seed": c.get("seed"), "n": c.get("n"), "tier": c.get("tier"), "idx": c.get("idx"),
                                 "case": c, "other_failing_cases": len(unknown_spec) - 1,
                                 "broken_obligation": proof_broken,
                                 "how": "the implementation's observed result on this case does not satisfy the "
                                        "property's spec oracle (Corr/%s.v spec_ok), evaluated in the Coq kernel" % prop})
        violations.append(("", rp))
    elif proof_broken or unknown_model or corr_error:
        what = {}
        if proof_broken:
            what["theorem_or_file_that_no_longer_checks"] = proof_broken
        if unknown_model:
            c = unknown_model[0]
            what["correspondence_that_no_longer_checks"] = "Corr/%s.v model_ok" % prop
            what["disagreeing_case"] = c
            what["harness"] = c.get("harness")
            what["seed"] = c.get("seed")
            what["n"] = c.get("n")
            what["idx"] = c.get("idx")
            what["tier"] = c.get("tier")
            what["other_disagreeing_cases"] = len(unknown_model) - 1
        if corr_error:
            what["correspondence_error"] = corr_error
        what["property"] = prop
        what["kind"] = "no-failing-input-found"
        what["searched"] = "%d generated cases evaluated against the spec oracle without a failing input" % cases_total
        rp = write_replay(prop, what)
        violations.append((" no-failing-input-found", rp))

    # -- evidence -----------------------------------------------------------------
    nthm = len(pinfo.get("theorems", []))
    discharged = nthm if (ok and not proof_broken) else 0
    tb = list(PROPS.TRUSTED_BASE_COMMON) + cfg.get("trusted_base", [])
    tb.append("axioms reported by Print Assumptions for Props/%s.v: %s" %
              (prop, ", ".join(pinfo.get("axioms_used", [])) or "none (closed under the global context)"))
    coverage = {
        "obligations": max(nthm, 1) + certs_total,
        "discharged": discharged + certs_ok,
        "numeric_certificates": {"emitted": certs_total, "proved_by_interval": certs_ok},
        "race_detector": race_info,
        "checker_cmd": "make -C coq -j16 %s && coqc -Q . GA Props/%s.v  (Coq 8.16.1, full .vo build)"
                       % (" ".join(targets), prop),
        "trusted_base": tb,
        "theorems": pinfo.get("theorems", []),
        "evaluations": cases_total,
        "distinct_nontrivial": len(nontrivial_keys),
        "rule": cfg.get("rule", ""),
        "samples": samples[:8] if samples else [{"note": "no cases generated"}],
        "traces_validated_against_impl": cases_total - len(fails_model) - len(fails_spec),
        "cases_inside_quantifier_judged_by_spec_oracle": judged_total,
        "model_impl_disagreements": len(fails_model),
        "spec_failures": len(fails_spec),
        "spec_failures_known": len(fails_spec) - len(unknown_spec),
        "known_findings_reported": sorted(reported_known),
        "input_distribution": stats_all,
        "kernel_eval_cmds": kernel_cmds[:4],
        "kernel_shard_wall_s": shard_times,
        "exhaustive": False,
    }
    coverage.update(extra_info.get("coverage", {}))
    if tier == "thorough" and cfg.get("coqchk", True) and ok and not proof_broken:
        t1 = time.time()
        mods = ["GA.Props.%s" % prop]
        try:
            rc, out = run(["coqchk", "-silent", "-o", "-Q", ".", "GA"] + mods, cwd=COQ, timeout=7200)
            coverage["coqchk"] = {"cmd": "coqchk -silent -o -Q . GA " + " ".join(mods), "rc": rc,
                                  "wall_s": round(time.time() - t1, 1), "tail": out[-1500:]}
            if rc != 0:
                rp = write_replay(prop, {"property": prop, "kind": "no-failing-input-found",
                                         "coqchk_rejects": mods, "output": out[-3000:]})
                violations.append((" no-failing-input-found", rp))
        except subprocess.TimeoutExpired:
            coverage["coqchk"] = {"cmd": "coqchk", "rc": "timeout"}
    ev = {
        "property_id": prop,
        "tier": tier,
        "seed": int(seed),
        "level": "proof",
        "coverage": coverage,
        "assumptions": cfg.get("assumptions", []),
        "wall_s": round(time.time() - t0, 1),
        "violations": len(violations),
    }
    if replay is None:
        with open(os.path.join(EVID, "%s.json" % prop), "w") as f:
            json.dump(ev, f, indent=1, sort_keys=True)
    for ln in known_lines:
        print(ln)
    log("%s tier=%s seed=%s: %d theorems (%d discharged), %d cases (%d judged by spec), %d model/impl disagreements, "
        "%d spec failures (%d known), %.0fs" %
        (prop, tier, seed, nthm, discharged, cases_total, judged_total, len(fails_model), len(fails_spec),
         len(fails_spec) - len(unknown_spec), time.time() - t0))
    for suffix, rp in violations:
        print("VIOLATION property=%s replay=%s%s" % (prop, rp, suffix))
    sys.stdout.flush()
    return 1 if violations else 0


def setup():
    t0 = time.time()
    with Lock(os.path.join(COQ, ".lock")):
        rc, out = build_harness()
        if rc != 0:
            print(out)
            return 2
        rc, out = gentables()
        if rc != 0:
            print(out)
            return 2
        coq_makefile()
        rc, out = run(["make", "-j16"], cwd=COQ, timeout=7200)
        if rc != 0:
            print(out[-6000:])
            return 2
    bad = audit_sources()
    if bad:
        print("forbidden vernacular:\n" + "\n".join(bad))
        return 2
    log("setup done in %.0fs" % (time.time() - t0))
    return 0


def audit():
    bad = audit_sources()
    for b in bad:
        print(b)
    return 1 if bad else 0


def main(argv):
    # coqc recurses deeply on very long literals (the wide Compress case of C13): raise the stack limit
    # for this process and its children when the hard limit allows it
    try:
        import resource
        soft, hard = resource.getrlimit(resource.RLIMIT_STACK)
        want = hard if hard != resource.RLIM_INFINITY else resource.RLIM_INFINITY
        resource.setrlimit(resource.RLIMIT_STACK, (want, hard))
        if want != resource.RLIM_INFINITY and want < (1 << 30):
            os.environ["VERIF_NO_WIDE"] = "1"     # the harness then leaves the very wide case out
    except Exception:
        os.environ["VERIF_NO_WIDE"] = "1"
    if not argv:
        print(__doc__)
        return 2
    if argv[0] == "setup":
        return setup()
    if argv[0] == "audit":
        return audit()
    prop = argv[0]
    if prop not in PROPS.PROPS:
        print("unknown property", prop)
        return 2
    tier = os.environ.get("VERIF_TIER", "quick")
    seed = os.environ.get("VERIF_SEED", "1")
    replay = None
    i = 1
    while i < len(argv):
        if argv[i] == "--tier":
            tier = argv[i + 1]
            i += 2
        elif argv[i] == "--seed":
            seed = argv[i + 1]
            i += 2
        elif argv[i] == "--replay":
            replay = argv[i + 1]
            i += 2
        else:
            print("unknown argument", argv[i])
            return 2
    try:
        seed = int(seed)
    except ValueError:
        seed = int(hashlib.sha1(str(seed).encode()).hexdigest()[:8], 16)
    if tier not in ("quick", "thorough"):
        tier = "quick"
    return check(prop, tier, seed, replay)
