#!/usr/bin/env python3
"""Confirms a seeded change produced by a sub-agent and runs the registered check against it.

usage: seedcheck.py <PROP> <srcdir> <name>
  srcdir holds patch.diff, demo_test.go, meta.json (as written by the sub-agent)
Steps (all in a scratch worktree under /tmp, removed afterwards, /repo itself only for the check run):
  1. worktree at /repo HEAD; apply patch; go build; full go test (must pass)
  2. demo test with the patch (must fail) and without it (must pass)
  3. git -C /repo apply patch; ./check PROP; git -C /repo checkout -- .
  4. store everything under /verif/seeded/<name>/
"""
import json, os, re, shutil, subprocess, sys
prop, src, name = sys.argv[1], sys.argv[2], sys.argv[3]
env = dict(os.environ, GOFLAGS="-mod=mod", GOPROXY="off", GOSUMDB="off", GOTOOLCHAIN="local")
def sh(cmd, cwd=None, timeout=1800):
    p = subprocess.run(cmd, shell=True, cwd=cwd, env=env, stdout=subprocess.PIPE, stderr=subprocess.STDOUT, timeout=timeout)
    return p.returncode, p.stdout.decode("utf-8", "replace")
wt = "/tmp/seedwt-%s" % name
sh("git -C /repo worktree remove --force %s" % wt)
rc, out = sh("git -C /repo worktree add -q --detach %s HEAD" % wt)
assert rc == 0, out
res = {}
try:
    patch = os.path.abspath(os.path.join(src, "patch.diff"))
    demo = open(os.path.join(src, "demo_test.go")).read()
    m = re.search(r"^package\s+(\w+)", demo, re.M)
    pkgdir = None
    for cand in re.findall(r"([\w/]+)/?\s", demo[:600]):
        pass
    # directory: look for a hint in the header comment, default align/
    pkgbase = re.sub(r"_test$", "", m.group(1)) if m else "align"
    cands = re.findall(r"\b((?:io|distance|models)/\w+|align|models|stats|cmd|gutils)\b/?", demo[:1200])
    pkgdir = None
    for cnd in cands:
        if os.path.isdir(os.path.join(wt, cnd)) and os.path.basename(cnd) == pkgbase:
            pkgdir = cnd
            break
    if pkgdir is None:
        for root, dirs, files in os.walk(wt):
            if os.path.basename(root) == pkgbase and any(f.endswith(".go") for f in files):
                pkgdir = os.path.relpath(root, wt)
                break
    if pkgbase == "main":
        pkgdir = "."
    pkgdir = pkgdir or "align"
    rc, out = sh("git apply %s" % patch, cwd=wt); res["apply_rc"] = rc
    assert rc == 0, out
    rc, out = sh("go build ./...", cwd=wt); res["build_rc"] = rc
    rc, out = sh("go test -vet=off -count=1 ./... 2>&1 | tail -25", cwd=wt); res["suite_with_patch"] = "FAIL" if ("FAIL" in out) else "ok"
    open(os.path.join(wt, pkgdir, "zz_seed_demo_test.go"), "w").write(demo)
    rc, out = sh("go test -vet=off -count=1 -run 'TestC|TestDemo|TestSeed|Test.*C[0-9][0-9]' ./%s/ 2>&1 | tail -15" % pkgdir, cwd=wt) if pkgdir == "." else sh("go test -vet=off -count=1 -run . ./%s/ 2>&1 | tail -15" % pkgdir, cwd=wt); res["demo_with_patch"] = "FAIL" if "FAIL" in out else "ok"
    sh("git apply -R %s" % patch, cwd=wt)
    rc, out = sh("go test -vet=off -count=1 -run 'TestC|TestDemo|TestSeed|Test.*C[0-9][0-9]' ./%s/ 2>&1 | tail -15" % pkgdir, cwd=wt) if pkgdir == "." else sh("go test -vet=off -count=1 -run . ./%s/ 2>&1 | tail -15" % pkgdir, cwd=wt); res["demo_without_patch"] = "FAIL" if "FAIL" in out else "ok"
    res["demo_dir"] = pkgdir
finally:
    sh("git -C /repo worktree remove --force %s" % wt)
# run the check against /repo with the patch applied (SEED_CONFIRM_ONLY=1: confirmation only, /repo is not touched;
# lib/seedsweep.py <name> runs the check later)
if os.environ.get("SEED_CONFIRM_ONLY"):
    res["check_rc"], res["check_lines"] = None, []
else:
    rc, out = sh("git -C /repo status --porcelain"); assert out.strip() == "", "repo not clean: " + out
    rc, out = sh("git -C /repo apply %s" % patch)
    try:
        rc, out = sh("./check %s --tier quick" % prop, cwd="/verif", timeout=3000)
        res["check_rc"] = rc
        res["check_lines"] = [l for l in out.splitlines() if "VIOLATION" in l or "KNOWN" in l or "tier=" in l]
    finally:
        sh("git -C /repo checkout -- .")
confirmed = res.get("suite_with_patch") == "ok" and res.get("demo_with_patch") == "FAIL" and res.get("demo_without_patch") == "ok" and res.get("build_rc") == 0
res["confirmed"] = confirmed
res["detected"] = res.get("check_rc") == 1
dst = "/verif/seeded/%s" % name
if confirmed:
    os.makedirs(dst, exist_ok=True)
    shutil.copy(patch, dst + "/patch.diff"); shutil.copy(os.path.join(src, "demo_test.go"), dst + "/demo_test.go")
    meta = json.load(open(os.path.join(src, "meta.json")))
    meta["breaks_property"] = prop
    meta["confirmed_by_me"] = {k: res[k] for k in ("build_rc", "suite_with_patch", "demo_with_patch", "demo_without_patch", "demo_dir")}
    meta["check_run"] = {"cmd": "git -C /repo apply patch.diff && ./check %s --tier quick && git -C /repo checkout -- ." % prop, "exit": res.get("check_rc"), "lines": res.get("check_lines")}
    meta["detected_by_check"] = res["detected"]
    json.dump(meta, open(dst + "/meta.json", "w"), indent=1)
print(json.dumps(res, indent=1))
