#!/usr/bin/env python3
"""Regenerates MANIFEST.json from lib/props.py (claimed properties) and lib/manifest_meta.py."""
import json, os, sys
sys.path.insert(0, os.path.dirname(os.path.abspath(__file__)))
import props, manifest_meta as mm
ROOT = os.path.dirname(os.path.dirname(os.path.abspath(__file__)))
ids = [json.loads(l)["id"] for l in open(os.path.join(ROOT, "properties.jsonl"))]
checks = []
na = []
for pid in ids:
    if pid in props.PROPS and pid in mm.CHECKS:
        c = mm.CHECKS[pid]
        checks.append({
            "property_id": pid,
            "quick_cmd": "./check %s --tier quick" % pid,
            "thorough_cmd": "./check %s --tier thorough" % pid,
            "evidence_file": "/verif/evidence/%s.json" % pid,
            "replay_cmd_template": "./check %s --replay {path}" % pid,
            "engine": "coq-proof+correspondence",
            "level_claimed": {"category": "proof", "text": c["text"], "design_ref": c.get("design_ref", "DESIGN.md section 5 " + pid)},
            "level_note": c["note"],
            "technique": c.get("technique", "machine-checked proof in Coq 8.16.1 about a hand-written Gallina model, tied to the Go code by a per-run differential correspondence evaluated in the Coq kernel"),
        })
    else:
        na.append({"property_id": pid, "reason": mm.NOT_APPLICABLE.get(pid, "not claimed yet: model, theorems and correspondence for this property are not built in this revision of /verif (see DESIGN.md section 5 for the plan)")})
man = {
    "version": 1,
    "setup_cmd": "./check setup",
    "hooks": {
        "guard": "verif",
        "enable": "go build -tags verif (the harness module replaces github.com/evolbioinfo/goalign by /repo)",
        "baseline_off_cmd": "cd /repo && go test -vet=off -count=1 ./...",
        "source_commits": mm.HOOK_COMMITS,
        "add_only": True,
    },
    "engines": [{
        "name": "coq-proof+correspondence",
        "path": "/verif/coq, /verif/harness, /verif/lib/vcheck.py",
        "serves_properties": [c["property_id"] for c in checks],
        "kind_free_text": "Coq 8.16.1 development (Model/ Spec/ Proofs/ Props/) + Go harness driving the real packages + in-kernel evaluation of model_ok/spec_ok on every generated case",
    }],
    "checks": checks,
    "not_applicable": na,
    "notes": "Every check rebuilds the harness and Gen/*.v tables from /repo's working tree, re-makes the property's theorems, and evaluates model-vs-implementation and spec-vs-implementation oracles in the Coq kernel on freshly generated cases. See DESIGN.md.",
}
if not na:
    del man["not_applicable"]
json.dump(man, open(os.path.join(ROOT, "MANIFEST.json"), "w"), indent=1)
print("claimed:", [c["property_id"] for c in checks])
