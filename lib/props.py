"""Per-property registry used by vcheck.py."""

TRUSTED_BASE_COMMON = [
    "Coq 8.16.1 kernel and its bytecode VM (vm_compute); native_compute is not used",
    "table translator `harness gentables` + add-only hook files built with -tags verif",
    "Go harness (case generation, outcome classification) and lib/vcheck.py orchestration",
    "hand-written Gallina model of the Go functions, tied to the code by the per-run correspondence "
    "(model_ok evaluated in the kernel on the implementation's observed results)",
]


def _nt_c06(m):
    return m.get("op") != "Complement" and any(len(s) >= 2 for s in m.get("seqs", [])) or \
        (m.get("op") == "Complement")


PROPS = {
    "C06": {
        "harness": [{"cmd": "c06", "n": {"quick": 600, "thorough": 30000}}],
        "rule": "all 256 bytes through align.Complement plus random nucleotide alignments / sequence bags "
                "(IUPAC in both cases, gaps, '.', '*', occasional foreign bytes and alphabets) under "
                "ReverseComplement, ReverseComplement twice, ReverseComplementSequences (subsets with unknown and "
                "repeated names), ToUpper, ToLower, Unalign; a case is non-trivial when it is a single-byte "
                "complement probe or has a row of >= 2 residues; distinct = distinct (op, input) pairs",
        "nontrivial": _nt_c06,
        "assumptions": [
            "Go byte slices are modelled as immutable lists; in-place mutation becomes a returned value",
            "unicode.ToUpper/ToLower on bytes are dumped into Gen/CaseTables.v by the translator each run",
        ],
    },
    "C05": {
        "harness": [{"cmd": "c05", "n": {"quick": 500, "thorough": 20000}}],
        "rule": "every codon b1 b2 b3 over the 38-symbol residue alphabet (ACGTU + 11 IUPAC codes in both cases, "
                "'-', X, x, ?, '.', '*') through the public Sequence.Translate (quick: one genetic code per (b1,b2) "
                "chosen from the seed, thorough: all three = exhaustive), arbitrary byte triples through the "
                "translateCodon hook, plus random sequences / sequence sets / alignments (frames -1..5, wrong "
                "alphabets, unknown codes), CodonAlign on gapped translations (with too short/long/missing rows), "
                "TranslateByReference with and without gaps; non-trivial = produced at least one residue or an error; "
                "distinct = distinct (op, arguments)",
        "nontrivial": lambda m: m.get("class") != "Ok" or any(len(s) > 0 for s in m.get("out_seqs", [])),
        "assumptions": [
            "seqbag/alignment rows have pairwise distinct names (AddSequence renaming is covered by C01)",
            "fmt.Sprintf(\"%s_%d\") for frames 0..2 modelled as name ++ \"_\" ++ digit",
            "TranslateByReference / CodonAlign: model tied by correspondence; the by-reference clauses (gap-free rows = plain "
            "translation, equal row lengths, frame-0 prefix) are theorems about the model (C05_byref_nogap, "
            "C05_byref_rows_same_length, C05_byref_frame0); what the other rows receive opposite a gapped reference codon is per case",
        ],
    },
    "C04": {
        "harness": [{"cmd": "c04", "n": {"quick": 1500, "thorough": 60000}}],
        "rule": "random gapped alignments (0-5 rows, 0-24 columns) x SubAlign / SelectSites / InverseCoordinates / "
                "InversePositions / TrimSequences / RefCoordinates / RefSites / Concat (shared and new names, empty "
                "sides, alphabet mismatch) / SubAlign+Concat re-assembly / AddRange+Split (codon, block and random "
                "ranges incl. invalid and overlapping) / Transpose (once, twice) / DiffWithFirst (+ReplaceMatchChars), "
                "integer arguments biased to -1,0,1,L-1,L,L+1; plus every (start,length) in [-1,L+1]^2 and boundary "
                "site lists on two tiny alignments; non-trivial = alignment has >=1 row and >=2 columns; "
                "distinct = distinct (op, arguments, input)",
        "nontrivial": lambda m: len(m.get("seqs", [])) >= 1 and len(m["seqs"][0]) >= 2,
        "assumptions": [
            "inputs are rectangular alignments with pairwise distinct names (C01 is about keeping them so)",
            "fmt %d modelled by Base/Dec.v",
        ],
    },
    "C12": {
        "harness": [{"cmd": "c12", "n": {"quick": 2000, "thorough": 40000}}],
        "rule": "random 1-4 row x 0-10 column alignments over {A,C,a,-,N,n,X,x} with column-level bias (gap-rich / "
                "N-rich / mixed, so qualifying prefixes and suffixes occur), both alphabets, cut-offs 0, 1/8 .. 1 "
                "(dyadic: exact in binary64; exact ties abound with <=4 rows) and out-of-range -1/2, 3/2, all option "
                "combinations, x RemoveCharacterSites / RemoveGapSites / RemoveMajorityCharacterSites / "
                "RemoveCharacterSeqs / RemoveGapSeqs; thorough adds every 2x3 alignment over {A,-,N,n,X} with rotating "
                "options; non-trivial = at least 2 columns; distinct = distinct (op, options, input)",
        "nontrivial": lambda m: len(m.get("seqs", [])) >= 1 and len(m["seqs"][0]) >= 2,
        "assumptions": [
            "cut-offs are dyadic rationals (float64 exact); IEEE rounding of non-dyadic cut-offs is outside the model",
            "spec oracle does not judge: a residue that is both matching and excluded, or a column/sequence whose "
            "rows are all excluded (fraction 0/0) - there the property text does not determine the outcome",
        ],
    },
    "C13": {
        "harness": [{"cmd": "c13", "n": {"quick": 1500, "thorough": 40000}}],
        "rule": "random sequence sets and alignments (0-6 rows, 0-12 columns) in five regimes (all identical, all "
                "distinct, few variants, N/X/gap variants, random; bags also with unequal lengths) x Deduplicate "
                "(nAsGap on/off, three alphabets), Deduplicate twice, and Compress on alignments built from 1-3 "
                "repeated column patterns plus noise; non-trivial = >= 2 rows and >= 2 columns; distinct = distinct "
                "(op, options, input)",
        "nontrivial": lambda m: len(m.get("seqs", [])) >= 2 and len(m["seqs"][0]) >= 2,
        "assumptions": [
            "go-radix Walk order is bytewise lexicographic (modelled by Base/Sort.v insertion sort); ASCII residues "
            "(Compress ranges over the pattern string by runes)",
            "names pairwise distinct, so AddSequence never renames (C01)",
        ],
    },
    "C15": {
        "harness": [{"cmd": "c15", "n": {"quick": 1500, "thorough": 40000}}],
        "rule": "every (start,length) in [-1,7]^2 x both protection flags on one 3x5 alignment, plus random 1-5 row x "
                "0-10 column alignments built from a consensus with per-row mutations (rare residues and majority ties "
                "occur) x Mask (windows biased to the borders and overhanging, all replacement modes incl. invalid, "
                "nogap/noref, every reference row / none / unknown) / MaskOccurences (thresholds -1..n+1) / MaskUnique, "
                "three alphabets; non-trivial = >= 2 rows and >= 2 columns; distinct = distinct (op, arguments, input)",
        "nontrivial": lambda m: len(m.get("seqs", [])) >= 2 and len(m["seqs"][0]) >= 2,
        "assumptions": [
            "ASCII residues (the code's occurrence tables have 130 entries)",
            "spec oracle does not judge reference protection without a reference row (the code then protects '.')",
            "MAJ with a reference row in MaskOccurences means the most frequent residue among the counted rows "
            "(pinned by the repository's own Test_align_MaskUniqueMAJ)",
        ],
    },
    "C14": {
        "harness": [{"cmd": "c14", "n": {"quick": 1800, "thorough": 50000}}],
        "extra_targets": ["Corr/C14Cert.vo"],
        "rule": "random 0-6 row x 0-9 column alignments generated column-wise (all-gap, all-N, exact two-way ties, "
                "mixed case, '.', '*', protein letters) x CharStats / UniqueCharacters / CharStatsSeq / CharStatsSite / "
                "MaxCharStats (20 repeated calls must agree) / Consensus / Entropy (domain, NaN, 40 repeated calls "
                "bit-identical, value certified against the real-valued definition; half of the cases on 8-31 row "
                "columns) / NbVariableSites / "
                "InformativeSites / AvgAllelesPerSite (float compared with the exact ratio within 1 ulp) / "
                "CountDifferences / NumGapsUniquePerSequence / NumMutationsUniquePerSequence (both also with a count "
                "profile) / NumMutationsComparedToReferenceSequence / ListMutationsComparedToReferenceSequence "
                "(references with several gap runs) / Pssm (5 normalisations + invalid ones, log, dyadic pseudo "
                "counts; error condition, no NaN, 20 repeated calls bit-identical, two entries per case certified "
                "against the real-valued definition), indices in [-1, L+1]; plus EqualOrCompatible on all 17x17 "
                "codes; non-trivial = >= 2 rows and >= 2 columns, or a compatibility probe; distinct = distinct "
                "(op, arguments, input)",
        "nontrivial": lambda m: (len(m.get("seqs", [])) >= 2 and len(m["seqs"][0]) >= 2) or m.get("op") == "EqualOrCompatible",
        "assumptions": [
            "ASCII residues (130-entry tables in the code)",
            "not modelled in this revision: the codon-wise (aa) variant of ListMutationsComparedToReferenceSequence; "
            "Pssm entries and Entropy values are certified per sampled entry (interval tactic), not compared bit for bit",
            "spec oracle does not judge InformativeSites when a lower-case wildcard (n/x) is present, nor "
            "NumMutationsComparedToReferenceSequence on rows with lower-case n or non-IUPAC letters",
        ],
    },
    "C01": {
        "harness": [{"cmd": "c01", "n": {"quick": 600, "thorough": 30000}, "extra": ["-per", "100"]}],
        "rule": "random histories of 1-8 public operations (AddSequence with same-name / same-sequence / wrong-length "
                "arguments, IgnoreIdentical, Append, AppendSeqIdentifier, Rename, RenameRegexp with literal patterns, "
                "CleanNames, TrimNamesAuto, Sort, ShuffleSequences, FilterLength, Clear, Clone, SetSequenceChar, "
                "Sample) on alignments and sequence sets started from 0-4 rows drawn from a 14-name universe built to "
                "collide (a, a_0001, ' a', a:b ...), all three duplicate-name policies; after EVERY operation the "
                "harness records NbSequences, Length, all rows in order, and for every name of the universe "
                "GetSequence and GetSequenceIdByName; non-trivial = history with >= 2 operations; distinct = distinct histories",
        "nontrivial": lambda m: m.get("nsteps", 0) >= 2,
        "assumptions": [
            "regular expressions of CleanNames modelled as hand-written scanners; RenameRegexp exercised with literal patterns",
            "ShuffleSequences / Sample take the Intn / Perm draws as arguments (the harness replays the same seed)",
            "Length() of an alignment that was emptied through a method promoted from the sequence bag is not judged "
            "(the code keeps the old cached length; the property does not say) - the model reproduces it",
        ],
    },
    "C10": {
        "harness": [{"cmd": "c10", "n": {"quick": 400, "thorough": 12000}, "extra": ["-per", "40"]}],
        "rule": "random 1-4 row x 1-7 column alignments x a fresh 63-bit seed x one of ShuffleSequences, BuildBootstrap "
                "(fractions 0..1 and 3/2), RandSubAlign (both modes, lengths -1..L+1), Sample (-1..n+1), ShuffleSites, "
                "Swap (random / fixed position), Recombine, AddGaps, Mutate, SimulateRogue with dyadic rates at and "
                "inside the borders; the implementation runs after rand.Seed(seed) - twice, for replay - and the model "
                "runs on the first 160 raw Int63 values of rand.NewSource(seed); results must be identical; "
                "non-trivial = every case (each exercises a distinct seed); distinct = distinct (seed, op, input)",
        "nontrivial": lambda m: True,
        "assumptions": [
            "math/rand's generator is not modelled: operations are functions of the raw Int63 stream; Go documents that "
            "rand.Seed(s) makes the global functions produce the stream of rand.New(rand.NewSource(s))",
            "rates are dyadic rationals so that int(rate*float64(n)) and Float64() <= rate are exact",
            "the remaining invariants (permutation / multiset / partition clauses) are judged per generated case by the "
            "spec oracle, not proved",
        ],
    },
    "C19": {
        "harness": [{"cmd": "c19", "n": {"quick": 500, "thorough": 20000}}],
        "rule": "random 2-4 row x 3-12 column nucleotide / protein alignments (half of the nucleotide ones carry an ORF) x "
                "one of: Clone, CloneSeqBag, SubAlign, SelectSites, Transpose, BuildBootstrap, Unalign, Consensus, "
                "Sequence.Clone, RandSubAlign(non consecutive); the six format writers; statistics; dna.DistMatrix (7 "
                "models); protein MLDist; NewPwAligner.Alignment (both algorithms); LongestORF; Phaser.Phase; mutation "
                "counters; plus the deliberately sharing Sample and RandSubAlign(consecutive).  Each case runs the "
                "two-step experiments on the real objects: snapshot source - call - snapshot; overwrite every residue of "
                "the result - snapshot source; fresh run, overwrite every residue of the source - snapshot result; "
                "non-trivial = every case; distinct = distinct (op, arguments, input)",
        "nontrivial": lambda m: True,
        "assumptions": [
            "Go slices are views (buffer, offset, length) into a heap of buffers; make+copy/append allocate",
            "Sample and RandSubAlign(consecutive) used to return views of their source; sub-alignments are in the property's list: "
            "they were repaired to copy (54e0bdb, 99ad2ca) and are judged as copies; Append, IterateChar and SequenceChar expose "
            "buffers by design and are not judged",
        ],
    },
    "C09": {
        "harness": [{"cmd": "c09", "n": {"quick": 700, "thorough": 20000}}],
        "rule": "all pairs of words over {A,C,G} up to length 3 (quick: a third of them chosen from the seed; thorough: "
                "up to length 4, all 14 400 pairs) under rotating match/mismatch/affine-gap schemes, plus random DNA / "
                "IUPAC / protein pairs of length 1-12 and 12-41 (half of them a mutated window of the other with an indel; a third with one to "
                "three residues against a long sequence, a tenth constructed so that a weak match overwrites a gap running along the border; "
                "decimal gap penalties; an aligner object reused after another scheme; empty sequences; "
                "tryptophan-rich proteins so that long gaps pay off) under 8 schemes (DNAfull / BLOSUM62 or "
                "match-mismatch; open in {-10,-2,-1}, extend in {-1,-1/2}), and the ATG variant; every observable "
                "(score, both rows, starts, ends, the four counters, inputs after the call) is compared with the model, "
                "validity by the proved checker, score-soundness and optimality against an independent Gotoh program; "
                "non-trivial = both sequences of length >= 2; distinct = distinct (pair, scheme, variant)",
        "nontrivial": lambda m: len(m.get("s1", "")) >= 2 and len(m.get("s2", "")) >= 2,
        "assumptions": [
            "scores that are multiples of 1/2 are carried multiplied by 2 as integers (float64 arithmetic is then exact and the code "
            "model predicts every observable); schemes with one decimal (-1.1 / -0.3) are carried multiplied by 20 and judged by the "
            "specification only: rounded floats may break ties differently than the exact model",
            "the Gotoh oracle is proved to dominate every valid alignment and to be attained by one; the code MODEL's reported score is "
            "proved equal to it for all inputs (C09_aligner_score_is_gotoh); that the CODE agrees with its model, and that the returned "
            "rows score exactly the reported score, is per case",
        ],
    },
    "C03": {
        "harness": [{"cmd": "c03", "n": {"quick": 2500, "thorough": 60000}}],
        "rule": "15 minimised inputs that used to hang / crash / be accepted, then valid files written by the real writers "
                "(FASTA, Phylip relaxed/strict/one-line/no-block/multi, Nexus, Clustal, Stockholm, partition; lengths "
                "straddling the line widths) mutated by truncation at a random offset, single-byte mutation over "
                "delimiter bytes, line deletion / duplication, token splices (keywords, brackets, CR, NUL, huge and "
                "negative numbers), header-count lies, occasionally twice and with a non-ASCII character; Clustal files also assembled "
                "token by token (keyword spellings, numeric / keyword names, tabs, CR LF, NUL, counts of every spelling, missing or "
                "blank conservation lines, unequal blocks); FASTA residue lines replaced by blanks; under every "
                "duplicate-name policy and forced alphabets; every call runs in a child process under a 3 s watchdog; "
                "non-trivial = input of at least 4 bytes; distinct = distinct (format, options, input)",
        "nontrivial": lambda m: len(m.get("input", "")) >= 4,
        "assumptions": [
            "the FASTA and Clustal lexers/parsers are modelled (ASCII inputs; the lexers decode runes) and proved to terminate with "
            "an error or a well-formed result; the other four parsers are judged by the spec oracle on generated inputs only (bounded)",
            "a hang is what the 3 s watchdog sees; os.Exit is recognised from the child's exit status and banner",
        ],
    },
    "C02": {
        "harness": [{"cmd": "c02", "n": {"quick": 700, "thorough": 40000}, "extra": ["-per", "120"]}],
        "rule": "random alignments of 1-5 rows whose length is drawn from {1,2,3,9,10,11,49,50,51,59,60,61,79,80,81,100,"
                "119,120,121,160,161} or uniformly in 1..170 (straddling every writer line/block width), nucleotide or "
                "protein IUPAC residues in both cases plus '-', '*', '?', names of 1-12 printable characters (<= 10 for "
                "strict Phylip; occasionally a keyword look-alike), through one of: FASTA, Phylip (relaxed, one-line, "
                "no-block, strict), Nexus, Clustal, Stockholm written and parsed as strings; FASTA via a .gz file and "
                "Phylip via an .xz file (OpenWriteFile / ReadAlign); ParseAlignmentAuto on FASTA/Phylip/Nexus/Clustal; a "
                "stream of 1-3 Phylip alignments through ParseMultiple; non-trivial = at least 2 rows and 11 columns; "
                "distinct = distinct (configuration, alignment)",
        "nontrivial": lambda m: len(m.get("names", [])) >= 2 and m.get("L", 0) >= 11,
        "assumptions": [
            "FASTA (writer + parser) and Clustal (writer + lexer/parser) are modelled on both sides and their round trips proved; the "
            "Phylip and Nexus writers are modelled and proved to round-trip through reference readers that are tied to the code's "
            "parsers on every written file; Stockholm, PaML, compressed files, streams and format detection are judged by the spec "
            "oracle on generated alignments (bounded)",
            "gzip/xz codecs are exercised through temporary files, not modelled",
        ],
    },
    "C07": {
        "harness": [{"cmd": "c07", "n": {"quick": 700, "thorough": 30000}, "extra": ["-per", "120"]}],
        "extra_targets": ["Corr/C07Cert.vo"],
        "rule": "random nucleotide alignments of 2-4 rows x 4-23 columns derived from a common ancestor at six divergence "
                "levels (identical ... saturated: every site a transversion), with IUPAC codes, lower case, gaps incl. "
                "leading/trailing runs, x 7 models x gamma on/off (alpha 1/2, 3/4, 1, 2) x rm-gaps x 3 gap counting "
                "modes x rm-ambiguous x weights (none / dyadic) through dna.DistMatrix; raw and p-distances are compared "
                "exactly (float within rounding of the model's rational), every entry is judged (symmetry, zero diagonal, "
                "0 for identical rows, >= observed proportion, undefined pairs never small), and up to 40 (thorough 1500) "
                "entries of the transcendental models are certified against the closed form by the interval tactic; "
                "non-trivial = at least 3 rows; distinct = distinct (options, alignment)",
        "nontrivial": lambda m: len(m.get("names", [])) >= 3,
        "assumptions": [
            "binary64 rounding is outside the model: formulas are over R, counts over Q; the tie is exact for "
            "raw/p-distance (dyadic weights) and by 1e-9 certificates for the other models; pairs whose estimator "
            "argument is within 1e-9 of 0 are not judged",
            "math.Log / math.Pow are taken to be the real functions within tolerance",
        ],
    },
    "C18": {
        "harness": [{"cmd": "c18", "n": {"quick": 200, "thorough": 4000}, "extra": ["-per", "25"]}],
        "extra_targets": ["Corr/C18Cert.vo"],
        "rule": "JC, K2P (5 kappas), F81, F84, TN93, TN93 (20% with kappa1 = kappa2 = 1), GTR (six rates k/4, k=1..16, 17% all equal: repeated eigen values) with base frequencies on the open "
                "simplex in 32nds, and the seven protein matrices with their own or random user frequencies in 256ths "
                "(10% of the cases); for branch lengths s, t in {1/64, 1/8, 1/2, 1, 2, 5} the matrices P(0), P(s), P(t), "
                "P(s+t), P(100), P(2^-20) of models.NewPij and the eigen system of Model.Eigens() are exported as exact "
                "binary64 values and every clause is judged at 2^-80 fixed point: stochastic, P(0)=I, semigroup, detailed "
                "balance, convergence (row L1 distance non-increasing, one zero eigenvalue, others negative), rate matrix "
                "Q=R D L with zero row sums, normalisation, reversibility, equality to the textbook rational rate matrix "
                "(nucleotide models), L R = R L = I, generator (P(h)-I)/h = Q; 60 (thorough 2000) entries are certified by "
                "the interval tactic against the closed forms (JC, K2P) or the SetLength assembly on the returned eigen "
                "system (F81, F84, TN93, GTR); non-trivial = non-uniform frequencies or protein; distinct = distinct "
                "(model, parameters, frequencies, s, t)",
        "nontrivial": lambda m: m.get("model") not in ("JC", "K2P"),
        "assumptions": [
            "binary64 rounding and math.Exp are outside the model: laws are judged with tolerance 1e-8 (1e-3 for the "
            "finite-difference generator, 1e-5 for the normalisation with the published protein frequencies)",
            "the numerical eigen-decomposition (gonum) is not modelled: its output is checked against the hypotheses "
            "of the general theorems per instance",
        ],
    },
    "C20": {
        "harness": [{"cmd": "c20", "n": {"quick": 600, "thorough": 20000}, "extra": ["-per", "75"]}],
        "extra_targets": ["Corr/C20Cert.vo"],
        "rule": "seven kinds, uniformly: dna.BuildWeightsGamma / BuildWeightsDirichlet for lengths 3..42 (10%: 3, 4, 100, "
                "257, 1000) and 40-bit seeds; stats.Dirichlet with 3..8 (12%: 1..2) shapes from 18 values in [1/64, 100] "
                "(mixed / all 1 / all below 1 / all above 1; 12% with one shape 0, -1/2 or -5) and factor 1, 10, 1/2, k, "
                "1000; stats.Dirichlet1 with 1..40 values; one stats.Gamma draw; models.DiscreteGamma for shapes "
                "k/64 (k<=6400) and 2..32 categories; models.IncompleteGamma on ascending 30-point grids from 0 to "
                "about 3*shape+4 for integer/half-integer shapes up to 8 and other shapes. Every sampler call is replayed "
                "by the harness on the uniform draws of the same seed (bit equality = model agreement) and every output "
                "is judged (length, finiteness, strict positivity, sum, order, range); 60 (thorough 1500) certificates: "
                "accepted and rejected rounds of the three samplers against the real-number model, and "
                "IncompleteGamma against its series definition with the exact Gamma(p); non-trivial = everything but "
                "error cases; distinct = distinct (call, parameters, seed)",
        "nontrivial": lambda m: not str(m.get("op", "")).endswith(":error"),
        "assumptions": [
            "binary64 rounding, math.Log/Exp/Pow/Sqrt and gonum's gamma quantile are outside the model; sums are "
            "judged with relative tolerance 1e-9, the category mean with 1e-6, sign and order of the category rates with "
            "1e-12 absolute, monotonicity of the incomplete gamma ratio with 1e-7 (the routine's own accuracy is 1e-8)",
            "math/rand's global source after rand.Seed(s) equals rand.New(rand.NewSource(s)) (checked by the replay)",
        ],
    },
    "C17": {
        "harness": [{"cmd": "c17", "n": {"quick": 240, "thorough": 6000}, "extra": ["-per", "20"]}],
        "rule": "protein alignments of 2-4 rows x 6-24 columns derived from a random ancestor at six divergence levels "
                "(identical ... 40% replaced; one class with exact copies of earlier rows, possibly with one masked site), "
                "7.5% of the cells replaced by '-', 'X' or '*', 8% of the cases with a gap in every column (nothing "
                "survives gap-site removal), x 7 empirical models x model/empirical frequencies x gamma (alpha 1/2, 3/4, "
                "1, 2) x gap-site removal x optional dyadic site weights, through protein.NewProtDistModel + InitModel + "
                "MLDist, plus the same call on a random row permutation and on a random column permutation (weights "
                "permuted along); every entry is judged (symmetry, zero diagonal, range, 0 for pairs without unambiguous "
                "difference, permutation relations within 1e-5), and for every pair below the cap the likelihood of the "
                "model's exact F at the reported distance is compared with 12 probes (x0.99, x1.01, x0.9, x1.1, x0.5, x2 "
                "and the grid 0.02 ... 19) using log terms assembled independently from the exported eigen-decomposition; "
                "non-trivial = some pair is optimised (differs, below the cap); distinct = distinct (options, alignment)",
        "nontrivial": lambda m: m.get("class", 0) != 0,
        "assumptions": [
            "the log terms ln(pi_i P_ij(d)) come from the harness's own float assembly of P(d) from the eigen system "
            "of models/protein (covered by C18); binary64 rounding is outside the model; likelihoods are compared with "
            "tolerance 1e-7, permuted matrices with 1e-5 (absolute + relative)",
        ],
    },
    "C16": {
        "harness": [{"cmd": "c16", "n": {"quick": 600, "thorough": 20000}, "extra": ["-per", "75"]}],
        "race": {"cmd": "c16", "n": {"quick": 200, "thorough": 3000}},
        "rule": "a random ORF (ATG, 4-13 sense codons, stop) embedded, exactly or mutated (5% / 12% of the bases, 25% of "
                "the mutated copies with a one-base or one-codon deletion), in random flanks of 0-12 bases, 1-5 sequences, "
                "a third reverse-complemented when both strands are searched; 75%: Phase with no / one / two reference "
                "ORFs x translate x reverse x cut-end x 3 genetic codes, run with 1 worker and with 2-8 workers under a "
                "watchdog (stream must close), every result judged (one per input, substring at the reported position of "
                "the input or its reverse complement, frame, translation with the model's translation, verbatim ORF "
                "trimmed at its start, same results for both worker counts, inputs unchanged); 25%: SeqBag.LongestORF on "
                "sequences seeded with extra ATGs (overlapping ORFs) or without any ORF, compared exactly with the code "
                "model and judged (is an ORF of an input strand, none longer); non-trivial = more than one sequence; "
                "distinct = distinct (call, options, sequences)",
        "nontrivial": lambda m: len(m.get("seqs", [])) > 1,
        "assumptions": [
            "the anchored Smith-Waterman search of the phaser is not re-executed in the model (its score/traceback "
            "model is covered by C09); goroutine scheduling is exercised with two worker counts, not enumerated",
        ],
    },
    "C11": {
        "harness": [{"cmd": "c11", "n": {"quick": 300, "thorough": 6000}, "extra": ["-per", "50"]}],
        "rule": "the goalign binary is built from /repo's working tree on every run; nucleotide alignments of 2-5 rows x "
                "6-75 columns (gaps 2.5%) written as FASTA. 42%: one of 32 command templates (random, shuffle sites / "
                "seqs / swap / recomb / rogue, sample sites / seqs, mutate snvs / gaps, build distboot / weightboot, "
                "compute distance / entropy / pssm, stats, stats char / maxchar / gaps / per sequence, consensus, clean "
                "sites, compress, sort, dedup, translate, reformat phylip / nexus / clustal) run twice with the same "
                "40-bit seed, --threads 1 against 2/3/8/16: stdout and exit status compared in the kernel; 20%: build "
                "seqboot (1-3 replicates, fraction 1, 1/2, 3/4, with or without -S) twice, the files compared with each "
                "other and with the model's prediction from the raw tape of the seed and the FASTA writer model; 20%: a "
                "chain of 2-5 reformat commands through fasta / phylip / nexus / clustal back to the starting format, "
                "final bytes against the starting file; 8%: phase / phasent / orf on 25-64 sequences with --threads 1 against 4/8/16 (output file, log and stdout); 15%: reformat phylip (four layouts), fasta, nexus and clustal, stdout predicted by the writer models; 8%: build distboot against build seqboot + compute distance "
                "on every replicate, 7 models; non-trivial = every case; distinct = distinct (command, seed, alignment)",
        "nontrivial": lambda m: True,
        "assumptions": [
            "process-level behaviour (exit status, stdout, files) is observed, not modelled, except for build seqboot; "
            "time-based seeding (--seed -1) is outside the property",
            "math/rand's seeded global source is the tape model of Base/Tape.v (conformance checked by C10 and by the "
            "seqboot prediction here)",
        ],
    },
    "C08": {
        "harness": [{"cmd": "c08", "n": {"quick": 600, "thorough": 20000}, "extra": ["-per", "100"]}],
        "race": {"cmd": "c08", "n": {"quick": 200, "thorough": 3000}},
        "rule": "the alignments and option sets of C07, each followed by one relation between two real calls of "
                "dna.DistMatrix: column permutation (SelectSites-like re-ordering with the weights), replication of "
                "every column 2-3 times, integer weight k instead, explicit unit weights (bit-identical), reverse "
                "complement of the whole alignment, row permutation (matrix permuted accordingly), 2/3/8/16/32 workers "
                "against 1 (bit-identical), and a caller-supplied model whose k-th evaluation (or every evaluation from the k-th on) fails with 1/2/3/4/8/16 workers "
                "under a 3 s watchdog (the call must return, with the error); the internal-gap counting mode is exempt "
                "from the column relations; non-trivial = every case; distinct = distinct (relation, options, alignment)",
        "nontrivial": lambda m: True,
        "assumptions": [
            "a schedule is modelled as the order in which the produced pairs are processed; atomicity of a cell write "
            "and of the mutex section is assumed; the Go memory model / race detector are outside the model",
            "'up to rounding' = 1e-9 relative; bit-identity is checked exactly for thread counts and unit weights",
        ],
    },
}
