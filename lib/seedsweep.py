#!/usr/bin/env python3
"""Re-runs every stored seeded change (/verif/seeded/<name>/patch.diff) against the registered checks
and refreshes meta.json (detected_by_check).  /repo's working tree is patched for the duration of each
run and restored afterwards; never run concurrently with another check."""
import json, os, subprocess, sys
ROOT = os.path.dirname(os.path.dirname(os.path.abspath(__file__)))
SEEDED = os.path.join(ROOT, "seeded")
EXTRA = {"C07-2": ["C08"], "C07-9": ["C08"], "C04-1": ["C19"], "C17-2": ["C18"], "C02-1": ["C11"], "C19-2": ["C16"],
         "C10-4": ["C11"], "C11-4": ["C02"], "C01-3": ["C04"],
         "C08-5": ["C07"], "C11-6": ["C08", "C07"], "C10-6": ["C11"], "C09-6": ["C11"], "C11-5": ["C02"], "C19-5": ["C16"], "C10-8": ["C11"]}
def sh(cmd, cwd=None, timeout=3000):
    p = subprocess.run(cmd, shell=True, cwd=cwd, stdout=subprocess.PIPE, stderr=subprocess.STDOUT, timeout=timeout)
    return p.returncode, p.stdout.decode("utf-8", "replace")
only = sys.argv[1:]
rc, out = sh("git -C /repo status --porcelain")
assert out.strip() == "", "repo not clean"
rows = []
for name in sorted(os.listdir(SEEDED)):
    if only and name not in only:
        continue
    d = os.path.join(SEEDED, name)
    if not os.path.isdir(d):
        continue
    mp = os.path.join(d, "meta.json")
    meta = json.load(open(mp))
    prop = meta.get("property", name.split("-")[0])
    rc, out = sh("git -C /repo apply %s" % os.path.join(d, "patch.diff"))
    res = {}
    if rc != 0:
        rc, out = sh("git -C /repo apply -3 %s" % os.path.join(d, "patch.diff"))
    if rc != 0:
        sh("git -C /repo reset -q ; git -C /repo checkout -- .")
        meta["sweep"] = "patch no longer applies to the current tree"
        json.dump(meta, open(mp, "w"), indent=1)
        rows.append((name, "n/a", "patch no longer applies"))
        continue
    try:
        detected = []
        for chk in [prop] + EXTRA.get(name, []):
            rc, out = sh("./check %s --tier quick" % chk, cwd=ROOT)
            lines = [l for l in out.splitlines() if "VIOLATION" in l or "tier=" in l]
            res[chk] = lines
            if rc == 1 and any("VIOLATION" in l for l in lines):
                detected.append(chk + (" (no-failing-input-found)" if any("no-failing-input-found" in l for l in lines) else ""))
    finally:
        sh("git -C /repo reset -q ; git -C /repo checkout -- .")
    meta["detected_by_check"] = detected
    meta["sweep_lines"] = res
    meta.pop("sweep", None)
    json.dump(meta, open(mp, "w"), indent=1)
    rows.append((name, ", ".join(detected) or "NOT DETECTED", meta.get("summary", "")[:100]))
    print(name, "->", ", ".join(detected) or "NOT DETECTED", flush=True)
sp = os.path.join(ROOT, "seeded", "SWEEP.json")
old = {}
if only and os.path.exists(sp):
    old = {r[0]: r for r in json.load(open(sp))}
for r in rows:
    old[r[0]] = list(r)
json.dump([old[k] for k in sorted(old)], open(sp, "w"), indent=1)
