HOOK_COMMITS = ["105aea1"]
NOT_APPLICABLE = {}
CHECKS = {
    "C06": {
        "text": "Theorems (Props/C06.v, closed under the global context) state for every byte, every row list and every name subset that the modelled ReverseComplement / ReverseComplementSequences / ToUpper / ToLower / Unalign are the semantic IUPAC reverse complement (independent base-set spec), involutive, case-only, gap-only; the complement table is regenerated from /repo each run and re-proved against the spec for all 256 bytes. The model is tied to the code by evaluating model_ok on every generated case in the kernel.",
        "note": "Trusted: Coq kernel + VM, table translator and hook file, Go harness, the hand-written model of in-place slice mutation as list functions; non-ASCII case folding is carried from a dumped table and only stated for ASCII.",
    },
}
