HOOK_COMMITS = ["105aea1"]
NOT_APPLICABLE = {}
CHECKS = {
    "C06": {
        "text": "Theorems (Props/C06.v, closed under the global context) state for every byte, every row list and every name subset that the modelled ReverseComplement / ReverseComplementSequences / ToUpper / ToLower / Unalign are the semantic IUPAC reverse complement (independent base-set spec), involutive, case-only, gap-only; the complement table is regenerated from /repo each run and re-proved against the spec for all 256 bytes. The model is tied to the code by evaluating model_ok on every generated case in the kernel.",
        "note": "Trusted: Coq kernel + VM, table translator and hook file, Go harness, the hand-written model of in-place slice mutation as list functions; non-ASCII case folding is carried from a dumped table and only stated for ASCII.",
    },
    "C05": {
        "text": "Theorems (closed under the global context): the three genetic-code tables regenerated from /repo equal NCBI tables 1/2/5 on all 64 codons and map --- to -; the IUPAC expansion table equals the base-set semantics; for all 256^3 byte triples and every supported code the modelled translateCodon equals the spec decision (shared amino acid / X / gap) - proved by a complete 256-byte classification sweep and a 17^3 class sweep; Sequence.Translate yields floor((L-frame)/3) residues, an error iff that is zero; three-frame naming; CodonAlign of a gapped translation is 3x long, preserves the nucleotides minus <= 2 trailing bases and translates back. The two TranslateByReference clauses are explicit statements checked on every generated case (bounded), not proved.",
        "note": "Partial: the by-reference clauses are validated by correspondence only. Trusted: kernel+VM, translator/hooks, harness, the hand model (alignment rows with distinct names; AddSequence renaming is C01's subject).",
    },
    "C04": {
        "text": "Theorems (closed under the global context) for the model of SubAlign, SelectSites, InversePositions, InverseCoordinates, TrimSequences, DiffWithFirst/ReplaceMatchChars and Split: success exactly on in-range arguments (the <-> covers -1, 0, L-1, L, L+1), returned columns are exactly the addressed ones in the addressed order with names kept, complements are sorted/disjoint/exhaustive, windows tile rows, diff-then-replace is the identity, partition blocks are the assigned columns and partition the sites. RefCoordinates minimal-window, prefix+suffix Concat re-assembly and transpose-twice are explicit statements checked on every generated case (bounded), not proved.",
        "note": "Partial: three clauses validated by correspondence only (see Props/C04.v *_statement). Trusted: kernel+VM, harness, hand model over rectangular rows with distinct names.",
    },
    "C12": {
        "text": "Theorems (closed under the global context): the cut-off rule is exactly 'count >= cutoff*total, or count > 0 at cutoff 0' over Q; for every decision vector the reported kept/removed indices are ascending, disjoint and a permutation of all columns; plain mode removes exactly the qualifying sites; ends mode removes exactly the maximal qualifying prefix and suffix (maximality proved) and reports their lengths; the result is the selection of kept columns with names and order intact; the per-sequence variant keeps exactly the non-qualifying rows. The model of the per-site counting (ignore options, alphabet wildcard, case folding, inverted selection, majority via MaxCharStats) is tied to the code by the per-run correspondence.",
        "note": "Trusted: kernel+VM, harness, hand model; cut-offs in Q, fed as dyadic rationals (exact in float64).",
    },
    "C13": {
        "text": "Theorems (closed under the global context), by induction over the whole input with an explicit loop invariant for Deduplicate's fold: kept rows are exactly the first occurrences of each distinct comparison key in original order, keys of kept rows are pairwise distinct, one group per kept row headed by its name, groups together a permutation of the input names, idempotence; for Compress: patterns pairwise distinct, exactly the distinct input columns in bytewise order, weights = exact multiplicities, weights sum to L, and every Z-valued column-additive statistic is preserved (sum over columns = weighted sum over patterns).",
        "note": "Trusted: kernel+VM, harness, hand model (radix-tree walk = sorted distinct patterns; in-place rewrite = new rows).",
    },
    "C15": {
        "text": "Theorems (closed under the global context): pointwise characterisation of every residue after Mask (replaced iff inside the window and not protected by the gap / reference flags, otherwise untouched), outside-window and protected residues unchanged, names/order/length unchanged, exact error conditions, overhanging windows equal truncated ones, the MAJ replacement is a most frequent byte (proved over the fold of the 130-entry table); for MaskOccurences/MaskUnique the pointwise characterisation with 'masked iff counted, non-gap, count within (0, threshold], different from the replacement'.",
        "note": "Trusted: kernel+VM, harness, hand model (in-place column loops as per-row maps; ASCII residues).",
    },
    "C14": {
        "text": "Theorems (closed under the global context): case-folded count tables contain exactly the occurring upper-cased characters with their counts, one entry each; the majority search (a fold over keys in increasing order, as in the repaired MaxCharStats) returns a most frequent non-excluded character with its count and the non-excluded total, or the first-row fallback when everything is excluded - and, being a function of the column, the same answer on every call; out-of-range site indices are errors for the per-site statistics; IUPAC compatibility is symmetric and means identical codes or intersecting base sets. The other listed statistics are modelled and compared with the code and with their naive definitions on every generated case.",
        "note": "Partial: Entropy value, PSSM, mutation lists and count profiles are not modelled; several statistics are judged by the per-case spec oracle only (bounded). Trusted: kernel+VM, harness, hand model.",
    },
}
